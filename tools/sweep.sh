#!/bin/bash
# tools/sweep.sh [first-id [last-id]]
# Every seeded change under two master seeds: the property's quick check must end with exit 1 and a VIOLATION line (never
# exit 0 or 2). The patches are applied to $TETL_ROOT (a scratch copy of /repo - never /repo itself) and removed again.
cd "$(dirname "$0")/.."
root=${TETL_ROOT:?set TETL_ROOT to a scratch worktree of /repo}
first=${1:-1}; last=${2:-999}
for d in seeded/S*; do
  n=$(basename "$d"); num=$(echo "$n" | sed 's/^S0*\([0-9]*\).*/\1/')
  [ "$num" -lt "$first" ] && continue; [ "$num" -gt "$last" ] && continue
  P=$(python3 -c "import json;print(json.load(open('$d/meta.json'))['property'])")
  git -C "$root" checkout -q -- .
  if ! git -C "$root" apply "$PWD/$d/patch.diff" 2>/dev/null; then echo "$n $P PATCH-DOES-NOT-APPLY"; continue; fi
  for s in ${SWEEP_SEEDS:-1 2}; do
    out=$(VERIF_SEED=$s bin/check run "$P" --tier quick 2>&1); rc=$?
    echo "$n $P seed=$s exit=$rc violations=$(echo "$out" | grep -c '^VIOLATION') unconfirmed=$(echo "$out" | grep -c '^NONDET') $(echo "$out" | grep -m1 '^candidate' | cut -c1-110)"
  done
  git -C "$root" checkout -q -- .
done
echo SWEEP-DONE
