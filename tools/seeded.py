#!/usr/bin/env python3
"""Confirm a seeded change and run the checks against it.

  tools/seeded.py import <src-dir> <name>      copy patch.diff / demo.cpp / meta.json into seeded/<name>/
  tools/seeded.py confirm <name>               scratch worktree: demo passes without the patch; with it the suite still
                                               passes 261/261 and the demo fails
  tools/seeded.py detect <name> [PROP ...]     apply the patch to /repo, run the quick checks, undo it straight afterwards

Nothing is ever committed to /repo; the scratch worktree is removed again.
"""
import json
import os
import re
import shutil
import subprocess
import sys

VERIF = os.path.dirname(os.path.dirname(os.path.abspath(__file__)))
SCRATCH = "/tmp/seeded-confirm"
# the tree the patch is applied to for `detect` (default /repo; a scratch worktree of /repo may be given instead so that
# /repo itself stays untouched while a long detection batch runs)
TARGET = os.environ.get("TETL_ROOT", "/repo")


def sh(cmd, **kw):
    return subprocess.run(cmd, shell=True, capture_output=True, text=True, **kw)


def load(name):
    d = os.path.join(VERIF, "seeded", name)
    return d, json.load(open(os.path.join(d, "meta.json")))


def save(d, meta):
    with open(os.path.join(d, "meta.json"), "w") as fh:
        json.dump(meta, fh, indent=1)
        fh.write("\n")


def cmd_import(src, name):
    d = os.path.join(VERIF, "seeded", name)
    os.makedirs(d, exist_ok=True)
    for f in os.listdir(src):
        if f in ("patch.diff", "demo.cpp", "meta.json", "tetl_config.hpp"):
            shutil.copy(os.path.join(src, f), os.path.join(d, f))
    print("imported", name)


def demo_cmd(d, meta, include):
    cmd = meta.get("demo_compile", "g++ -std=c++20 -I%s demo.cpp -o demo" % include)
    cmd = re.sub(r"-I\s*/tmp/mut\d*/C\d+/include", "-I" + include, cmd)
    cmd = re.sub(r"-I\s*/tmp/mut\d*/C\d+/_mutant(/[AB])?", "-I" + d, cmd)
    cmd = re.sub(r"/tmp/mut\d*/C\d+/_mutant(/[AB])?/", d + "/", cmd)
    cmd = re.sub(r"(?<![\w/.-])demo\.cpp", os.path.join(d, "demo.cpp"), cmd)
    cmd = re.sub(r"-o\s+\S+", "-o /tmp/seeded-demo", cmd)
    cmd = re.sub(r"^cd \S+ && ", "", cmd)
    return cmd


def cmd_confirm(name):
    d, meta = load(name)
    sh("git -C /repo worktree remove --force %s" % SCRATCH)
    r = sh("git -C /repo worktree add --detach %s HEAD" % SCRATCH)
    if r.returncode != 0:
        print(r.stderr)
        return 1
    try:
        inc = os.path.join(SCRATCH, "include")
        c = demo_cmd(d, meta, inc)
        r = sh(c, cwd=d)
        if r.returncode != 0:
            print("demo does not compile on the unmodified tree:\n", c, "\n", r.stderr[-2000:])
            return 1
        before = sh("/tmp/seeded-demo")
        r = sh("git -C %s apply %s" % (SCRATCH, os.path.join(d, "patch.diff")))
        if r.returncode != 0:
            print("patch does not apply to HEAD:", r.stderr)
            return 1
        r = sh("cmake -G Ninja -B _build -S . -DCMAKE_BUILD_TYPE=RelWithDebInfo -DTETL_BUILD_CONTRACT_CHECKS=ON -DCMAKE_CXX_FLAGS=-Wno-error "
               ">/dev/null 2>&1 && cmake --build _build -j16 2>&1 | tail -2 && ctest --test-dir _build -j16 2>&1 | tail -3", cwd=SCRATCH)
        suite = r.stdout
        ok_suite = "100% tests passed, 0 tests failed out of 261" in suite
        r = sh(c, cwd=d)
        if r.returncode != 0:
            print("demo does not compile on the modified tree:", r.stderr[-2000:])
            return 1
        after = sh("/tmp/seeded-demo")
        meta["confirmed"] = {
            "demo_exit_unmodified": before.returncode,
            "demo_exit_with_change": after.returncode,
            "suite_with_change": [l for l in suite.splitlines() if "tests passed" in l][:1],
            "ok": before.returncode == 0 and after.returncode != 0 and ok_suite,
            "base_commit": sh("git -C /repo rev-parse --short HEAD").stdout.strip(),
        }
        save(d, meta)
        print(name, "confirmed" if meta["confirmed"]["ok"] else "NOT CONFIRMED", meta["confirmed"])
        return 0 if meta["confirmed"]["ok"] else 1
    finally:
        sh("git -C /repo worktree remove --force %s" % SCRATCH)
        if os.path.exists("/tmp/seeded-demo"):
            os.remove("/tmp/seeded-demo")


def cmd_detect(name, props):
    d, meta = load(name)
    props = props or [meta["property"]]
    if sh("git -C %s status --porcelain --untracked-files=no" % TARGET).stdout.strip():
        print("refusing: %s has local modifications" % TARGET)
        return 1
    r = sh("git -C %s apply %s" % (TARGET, os.path.join(d, "patch.diff")))
    if r.returncode != 0:
        print("patch does not apply:", r.stderr)
        return 1
    results = meta.setdefault("detection", {})
    try:
        for p in props:
            r = sh("bin/check run %s --tier quick" % p, cwd=VERIF)
            viol = [l for l in r.stdout.splitlines() if l.startswith("VIOLATION")]
            cands = [l for l in r.stdout.splitlines() if l.startswith("candidate:")]
            results[p] = {"exit": r.returncode, "violations": len(viol), "first": (cands[:1] or [""])[0][:300]}
            print(name, p, "exit", r.returncode, (cands[:1] or ["-"])[0][:200])
            # keep one minimised replay of the detection next to the patch
            m = re.search(r"replay=(\S+)", viol[0]) if viol else None
            if m:
                shutil.copy(os.path.join(VERIF, m.group(1)), os.path.join(d, "detected-%s.plan" % p))
    finally:
        sh("git -C %s checkout -- ." % TARGET)
    save(d, meta)
    return 0


def main():
    a = sys.argv[1:]
    if len(a) >= 3 and a[0] == "import":
        return cmd_import(a[1], a[2])
    if len(a) >= 2 and a[0] == "confirm":
        return cmd_confirm(a[1])
    if len(a) >= 2 and a[0] == "detect":
        return cmd_detect(a[1], a[2:])
    print(__doc__)
    return 2


if __name__ == "__main__":
    sys.exit(main())
