#!/bin/sh
# Runs every registered quick check under a range of VERIF_SEED values; any non-zero exit is printed.
# usage: tools/soak.sh <first-seed> <last-seed> [PROP ...]
first=${1:-2}; last=${2:-12}; shift 2 2>/dev/null
props=${*:-"C01 C02 C03 C04 C05 C07 C09 C17 C20"}
cd "$(dirname "$0")/.."
bad=0
s=$first
while [ "$s" -le "$last" ]; do
  for p in $props; do
    out=$(VERIF_SEED=$s bin/check run "$p" --tier quick 2>&1); rc=$?
    if [ $rc -ne 0 ] || echo "$out" | grep -q "^VIOLATION"; then
      bad=$((bad+1)); echo "seed=$s $p exit=$rc"; echo "$out" | grep -E "candidate|VIOLATION|HARNESS|NONDET" | head -5
    fi
  done
  s=$((s+1))
done
echo "soak: seeds $first..$last, alarms=$bad"
