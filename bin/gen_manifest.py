#!/usr/bin/env python3
"""Writes /verif/MANIFEST.json from bin/simconfig.py so that the two can never disagree."""
import json
import os
import sys

VERIF = os.path.dirname(os.path.dirname(os.path.abspath(__file__)))
sys.path.insert(0, os.path.join(VERIF, "bin"))
from simconfig import PROPS, MANIFEST_TEXT, NOT_APPLICABLE, TECHNIQUE  # noqa: E402

checks = []
for pid in sorted(PROPS):
    t = MANIFEST_TEXT[pid]
    checks.append({
        "property_id": pid,
        "quick_cmd": "bin/check run %s --tier quick" % pid,
        "thorough_cmd": "bin/check run %s --tier thorough" % pid,
        "evidence_file": "/verif/evidence/%s.json" % pid,
        "replay_cmd_template": "bin/check replay {path}",
        "engine": "tetl-sim",
        "level_claimed": {"category": PROPS[pid]["level"], "text": t["text"], "design_ref": t["ref"]},
        "level_note": t["note"],
        "technique": TECHNIQUE,
    })
na = [{"property_id": k, "reason": "not a simulation target: " + v} for k, v in sorted(NOT_APPLICABLE.items()) if k not in PROPS]
# properties that are planned but whose driver is not registered yet are listed as not applicable *for now*
m = {
    "version": 1,
    "setup_cmd": "bin/check setup",
    "hooks": {
        "guard": "TETL_VERIF",
        "enable": "no hook in /repo is needed: the simulator uses the library's own seams (TETL_ENABLE_USER_CONFIG_HEADER_INCLUDE with "
                  "sim/seams/tetl_config.hpp providing etl::assert_handler / etl::exception_handler, template parameters, placement into "
                  "caller-provided storage, link-time --wrap of malloc and replaced operator new); the guard name is reserved and unused",
        "baseline_off_cmd": "cmake --build /repo/_build && ctest --test-dir /repo/_build -j8 --timeout 900",
        "source_commits": [],
        "add_only": True,
    },
    "engines": [{
        "name": "tetl-sim",
        "path": "/verif/bin/check",
        "serves_properties": sorted(PROPS),
        "kind_free_text": "seeded deterministic simulator (sim/*.hpp, scen/*.cpp) driven by a python supervisor: plans of abstract "
                          "operations with attached faults, lock-step reference models, lifetime registry, guarded arena, replaceable "
                          "contract handlers, ddmin shrinking and plan-file replay",
    }],
    "checks": checks,
    "not_applicable": na,
    "notes": "All checks honour VERIF_SEED and VERIF_TIER, rebuild stale binaries from /repo's working tree (content hash over "
             "/repo/include, sim/ and the scenario source) and write evidence/<id>.json. Exit 0 held / 1 VIOLATION (each with a replay "
             "that was reproduced twice in fresh processes) / 2 no candidate of the run could be reproduced / 3 harness, build or internal "
             "error. Known findings live in known_findings.json; seeded changes and their detection results in seeded/.",
}
extra = json.load(open(os.path.join(VERIF, "bin", "pending.json"))) if os.path.exists(os.path.join(VERIF, "bin", "pending.json")) else {}
for pid, reason in sorted(extra.items()):
    if pid not in PROPS:
        m["not_applicable"].append({"property_id": pid, "reason": reason})
m["not_applicable"].sort(key=lambda e: e["property_id"])
with open(os.path.join(VERIF, "MANIFEST.json"), "w") as fh:
    json.dump(m, fh, indent=1)
    fh.write("\n")
print("MANIFEST.json: %d checks, %d not applicable" % (len(checks), len(m["not_applicable"])))
