"""Static tables of the simulation checks: families (drivers), build flavours, per-property budgets."""

FAMILIES = {
    "vec": {"src": "scen/vec.cpp", "parts": 4},
    "str": {"src": "scen/str.cpp", "parts": 5},
    "set": {"src": "scen/set.cpp", "parts": 2},
    "ovx": {"src": "scen/ovx.cpp", "parts": 3},
    "bits": {"src": "scen/bits.cpp", "parts": 3},
    "fn": {"src": "scen/fn.cpp", "parts": 2},
    "views": {"src": "scen/views.cpp", "parts": 1},
}

SAN = ["-O1", "-g1", "-fsanitize=address,undefined", "-fno-sanitize-recover=undefined", "-fno-omit-frame-pointer"]

FLAVOURS = {
    # the suite's own configuration
    "chk-O2": {"cxx": "g++", "flags": ["-O2", "-DTETL_ENABLE_CONTRACT_CHECKS=1"]},
    "chk-asan": {"cxx": "g++", "flags": SAN + ["-DTETL_ENABLE_CONTRACT_CHECKS=1"], "run_scale": 0.35},
    # only the SAFE level defined (it must imply the plain level): cheap non-sanitizer build for the quick tier
    # (and a release build: NDEBUG, TETL_ASSERT compiled out - contract checks must not depend on it)
    "safe-O2": {"cxx": "g++", "flags": ["-O2", "-DNDEBUG", "-DSIM_NO_ASSERTIONS", "-DTETL_ENABLE_CONTRACT_CHECKS_SAFE=1"], "run_scale": 0.25},
    "safe-asan": {"cxx": "g++", "flags": SAN + ["-DNDEBUG", "-DSIM_NO_ASSERTIONS", "-DTETL_ENABLE_CONTRACT_CHECKS_SAFE=1"], "run_scale": 0.35},
    # the shipped default: no contract macros
    "off-asan": {"cxx": "g++", "flags": SAN, "run_scale": 0.35},
    # the shipped default without sanitizers (cheap enough for the quick tier of C04)
    "off-O2": {"cxx": "g++", "flags": ["-O2"], "run_scale": 0.3},
    # the usual embedded configuration: exceptions disabled (the string family needs them for its reference model)
    "noexc-O2": {"cxx": "g++", "flags": ["-O2", "-fno-exceptions", "-DTETL_ENABLE_CONTRACT_CHECKS=1"], "run_scale": 0.3, "skip_families": ["str", "bits"]},
    "chk-O0": {"cxx": "g++", "flags": ["-O0", "-DTETL_ENABLE_CONTRACT_CHECKS=1"], "run_scale": 0.5},
    # a second compiler (clang 14 cannot compile the bitset and variant headers - P0634 and pack-expansion gaps - so those two
    # families are g++ only; tuple_cat does not compile either and is skipped by the fn driver under clang); exercises the `#if defined(__clang__)` branches and another optimiser
    "chk-clang": {"cxx": "clang++", "flags": ["-O2", "-DTETL_ENABLE_CONTRACT_CHECKS=1"], "run_scale": 0.5, "skip_families": ["bits", "ovx"]},
    # plain binary for the valgrind/memcheck pass: the arena is handed to memcheck as undefined before each construction
    "vg-O1": {"cxx": "g++", "flags": ["-O1", "-g1", "-DSIM_VALGRIND=1", "-DTETL_ENABLE_CONTRACT_CHECKS=1"], "run_scale": 0.0},
}

COMMON_ASSUME = [
    "g++ 12.2 / libstdc++ reference models (std::vector, std::basic_string, std::set, std::optional, std::variant, std::bitset) are correct",
    "a clean batch is evidence over the sampled histories, not a proof over all histories",
    "the simulator's own arena, registry and handler seam behave as described in DESIGN.md section 2",
]

PROPS = {
    "C01": {
        "families": ["vec"],
        "level": "exploration",
        "rule": "one run = one seeded plan (scenario type, pool of 1-3 objects, 1-60 abstract steps - one run in 64: 120-960 - interpreted modulo the "
                "observable state) executed against the real headers and a std::vector model in lock-step; a run is "
                "non-trivial if it contains >=3 state-changing steps and >=1 boundary event (became full, became empty, "
                "fault fired, refusal at capacity, cross-object step); distinct = distinct 64-bit hashes of the executed "
                "event log (interpreted operations, outcomes and observed states) of non-trivial runs",
        "assumptions": COMMON_ASSUME,
        "quick": {"flavours": ["chk-O2"], "runs": 1200000, "max_seconds": 40},
        "thorough": {"flavours": ["chk-O2", "chk-asan", "off-asan", "chk-O0", "chk-clang"], "runs": 12000000, "max_seconds": 240},
    },
    "C04": {
        "families": ["str"],
        "level": "exploration",
        "rule": "one run = one seeded plan over a pool of 1-3 basic_inplace_string objects of one (character type, capacity) "
                "scenario; every mutator and observer overload is applied through the same generic code to the real string and to "
                "std::basic_string; the std result on a trial copy decides validity (throws -> skipped, longer than the capacity -> "
                "clamp/refusal clause) and the expected state; size<=capacity and data()[size()]==0 are checked after every step. "
                "Non-trivial and distinct as for C01",
        "assumptions": COMMON_ASSUME,
        "quick": {"flavours": ["chk-O2", "off-O2"], "runs": 1200000, "max_seconds": 40},
        "thorough": {"flavours": ["chk-O2", "chk-asan", "off-asan", "chk-O0", "chk-clang"], "runs": 12000000, "max_seconds": 240},
    },
    "C07": {
        "families": ["ovx"],
        "level": "exploration",
        "rule": "one run = one seeded plan over a pool of 1-3 objects of one scenario (optional<int|Tracked|TrackedMoveOnly|int&>, "
                "variant<int,char>, variant<int,Tracked>, variant<Tracked,TrackedB,int,monostate>, expected<int,int>, "
                "expected<Tracked,TrackedB>); every construction / assignment / emplace / reset / swap form is applied to the real "
                "object and to std::optional or an (index,value) model carrying std::variant's ordering; after every step engaged "
                "flag / index, value, every provided relational operator against every pool object, nullopt and values, "
                "get_if/holds_alternative and one- and two-variant visit are compared; non-trivial and distinct as for C01",
        "assumptions": COMMON_ASSUME + ["std::expected is C++23: a 10-line (has_value, value) model stands in for it; the variant model is (index, value) with std::variant's index-then-value ordering"],
        "quick": {"flavours": ["chk-O2"], "runs": 1000000, "max_seconds": 40},
        "thorough": {"flavours": ["chk-O2", "chk-asan", "off-asan", "chk-O0", "chk-clang"], "runs": 10000000, "max_seconds": 240},
    },
    "C09": {
        "families": ["set"],
        "level": "exploration",
        "rule": "one run = one seeded plan over a pool of 1-3 sets of one scenario (static_set / flat_set over static_vector; int or "
                "instrumented keys; capacity 1,3,4; less, greater, transparent less<>) with keys from a universe of 6, so duplicates "
                "and the full condition occur in almost every run; after every step every lookup (find contains count lower_bound "
                "upper_bound equal_range, homogeneous and heterogeneous) is compared with std::set for every key of the universe "
                "and strict ordering is checked with the set's own comparator; non-trivial and distinct as for C01",
        "assumptions": COMMON_ASSUME,
        "quick": {"flavours": ["chk-O2"], "runs": 1000000, "max_seconds": 40},
        "thorough": {"flavours": ["chk-O2", "chk-asan", "off-asan", "chk-O0", "chk-clang"], "runs": 10000000, "max_seconds": 240},
    },
    "C17": {
        "families": ["bits"],
        "level": "exploration",
        "rule": "one run = one seeded plan over a pool of 1-3 bitsets of one scenario (bitset<W> or basic_bitset<W,Word>, W in "
                "{1,7,8,9,31,32,33,63,64,65,127,128,129}, Word in uint8/16/32/64) mixing whole-set and single-bit operations, proxy "
                "assignment, compound and binary operators and construction from integers and strings; after every step every "
                "position, count/all/any/none, equality against every pool object, to_ulong/to_ullong and to_string are compared "
                "with std::bitset<W>; non-trivial = >=3 state-changing steps and >=1 boundary event (became all-ones / all-zero, "
                "fault fired, cross-object step); distinct = distinct event-log hashes of non-trivial runs",
        "assumptions": COMMON_ASSUME,
        "quick": {"flavours": ["chk-O2", "safe-O2"], "runs": 1000000, "max_seconds": 40},
        "thorough": {"flavours": ["chk-O2", "chk-asan", "off-asan", "chk-O0", "chk-clang", "safe-O2"], "runs": 8000000, "max_seconds": 240},
    },
    "C20": {
        "families": ["fn"],
        "level": "exploration",
        "rule": "one run = one seeded plan over (a) a pool of inplace_function<int(int,int&,Tracked const&,TrackedMoveOnly&&),Cap> "
                "objects (Cap 8/16/32/64) holding function pointers, trivially copyable stateful callables and non-trivially copyable "
                "callables padded exactly to 16 bytes and to the capacity, (b) function_ref / reference_wrapper / bind_front / not_fn / "
                "invoke over three stateful targets, (c) pools of pair<A,B> and tuple<A,B,C> over int, copy+move, move-only and "
                "copy-only elements; every wrapper call is checked against the instrumented target's call log (which instance, how "
                "often, argument values, addresses and value categories, result) and pairs/tuples against std::pair / std::tuple; "
                "non-trivial and distinct as for C01",
        "assumptions": COMMON_ASSUME,
        "quick": {"flavours": ["chk-O2"], "runs": 1000000, "max_seconds": 40},
        "thorough": {"flavours": ["chk-O2", "chk-asan", "off-asan", "chk-O0", "chk-clang"], "runs": 8000000, "max_seconds": 240},
    },
    "C02": {
        "families": ["vec", "str", "set", "ovx", "bits", "fn", "views"],
        "shares": {"vec": 0.2, "str": 0.25, "set": 0.15, "ovx": 0.1, "bits": 0.1, "fn": 0.1, "views": 0.1},
        "level": "exploration",
        "rule": "one run = one seeded plan of valid (and capacity-refusal) steps executed twice under two different garbage "
                "patterns in the arena, under ASan+UBSan, with guard zones, exact-size heap argument buffers and the allocator "
                "tripwire armed; non-trivial and distinct as for C01",
        "assumptions": COMMON_ASSUME + ["sanitizer coverage is that of g++ 12 ASan/UBSan; intra-object overflow is only seen through state divergence"],
        "quick": {"flavours": ["chk-asan", "off-asan"], "runs": 300000, "max_seconds": 40, "cross_compiler": {"runs": 160000}},
        "thorough": {"flavours": ["chk-asan", "off-asan", "chk-O2", "chk-O0"], "runs": 6000000, "max_seconds": 240,
                     "valgrind_runs": 600, "cross_compiler": {"runs": 1600000}},
    },
    "C03": {
        "families": ["vec", "set", "ovx", "fn"],
        "level": "exploration",
        "rule": "one run = one seeded plan over owners of instrumented elements; every special-member call is checked against "
                "an address-keyed lifetime registry, the live set inside each owner must equal [begin,end) after every step "
                "and be empty after the owner's destructor; non-trivial and distinct as for C01",
        "assumptions": COMMON_ASSUME,
        "quick": {"flavours": ["chk-O2", "chk-clang", "noexc-O2"], "runs": 1200000, "max_seconds": 40},
        "thorough": {"flavours": ["chk-O2", "chk-asan", "off-asan", "chk-O0", "chk-clang", "noexc-O2"], "runs": 12000000, "max_seconds": 240},
    },
    "C05": {
        "families": ["vec", "str", "set", "ovx", "bits", "fn", "views"],
        "shares": {"vec": 0.2, "str": 0.2, "set": 0.1, "ovx": 0.1, "bits": 0.1, "fn": 0.1, "views": 0.2},
        "level": "fault_enumeration",
        "rule": "misuse faults (a precondition-violating call at the boundary, boundary+1 and max) are attached to seeded steps "
                "of container histories; the replaced handler must be entered with a location before any damage and, for "
                "argument-visible violations, with the object unmodified; every valid step must not enter the handler; "
                "non-trivial and distinct as for C01",
        "assumptions": COMMON_ASSUME,
        "quick": {"flavours": ["chk-O2", "safe-O2", "chk-asan"], "runs": 600000, "max_seconds": 40},
        "thorough": {"flavours": ["chk-O2", "chk-asan", "safe-asan", "chk-O0", "chk-clang"], "runs": 10000000, "max_seconds": 240},
    },
}

TECHNIQUE = "deterministic simulation with fault injection: seeded operation/fault histories against an executable reference model"

MANIFEST_TEXT = {
    "C01": {
        "text": "Seeded history simulation of static_vector / inplace_vector (int, copy+move, move-only, copy-only elements; capacities "
                "0,1,2,3,4,8,254,255,256) against std::vector in lock-step, with capacity exhaustion, dirty-memory creation, aliasing and "
                "self-referential calls and moved-from reuse injected inside histories. Sampling, not proof: exploration is the right level "
                "because the property quantifies over unbounded operation histories.",
        "note": "Trusts libstdc++ std::vector as the reference and g++ 12.2 code generation; operations std::vector leaves unspecified "
                "(moved-from value, self-move-assignment) are not compared.",
        "ref": "DESIGN.md section 3 C01",
    },
    "C02": {
        "text": "Every valid history of the stateful anchored types is executed under ASan+UBSan inside a guarded arena pre-filled with "
                "seeded garbage, with exact-size heap argument buffers and an allocator that trips inside library calls; each plan is run "
                "under two garbage patterns and the event logs must be identical (uninitialised reads). C-string / wide-string functions run as "
                "histories over exact-size caller buffers between canaries; the same seeds are run by a g++ and a clang build and must produce "
                "identical event logs (compiler-dependent behaviour). Exploration over sampled histories.",
        "note": "Only the history part of the property is decided; direct sweeps of pure call tuples (view searches, to_chars buffers, "
                "algorithms) are reached only as far as the container histories call them. Intra-object overflow is visible only as a "
                "state divergence.",
        "ref": "DESIGN.md section 3 C02",
    },
    "C03": {
        "text": "Instrumented element types report every special-member call to an address-keyed lifetime registry; after every step of "
                "a seeded history the set of live elements inside each owner must equal [begin,end), no illegal transition may have "
                "happened, and nothing may be alive after the owner's destructor. Faults: refusals at capacity, trapped misuse mid-history, "
                "self-assignment/self-swap, aliasing, moved-from reuse.",
        "note": "Element special members do not throw (the library is built without exceptions); a moved-from owner is only required to "
                "be assignable, clearable and destructible.",
        "ref": "DESIGN.md section 3 C03",
    },
    "C04": {
        "text": "Seeded history simulation of basic_inplace_string for char, wchar_t, char8_t, char16_t, char32_t and capacities "
                "1,7,15 (size in the last element) and 16,31,255,256 against std::basic_string: every mutator and search/compare "
                "overload (with and without defaulted arguments, with pointer, view, string and self arguments) runs through the same "
                "generic code on both sides; capacity-clamping appends, trapped overflows, self-aliasing arguments and dirty-memory "
                "creation are injected; size()<=capacity() and data()[size()]==0 are checked after every step including after faults.",
        "note": "Trusts libstdc++ std::basic_string. Operations whose std result does not fit the capacity are outside the property "
                "except the documented clamping appends. Two test-pinned deviations (replace overwrite semantics, default pos of the "
                "reverse searches) are open known findings with executable defect models.",
        "ref": "DESIGN.md section 3 C04",
    },
    "C07": {
        "text": "Seeded history simulation of optional (int, copy+move, move-only and reference payloads; mixed optional<T>/optional<U>), "
                "variant (all-trivial, mixed and four-alternative shapes, every from/to index pair) and expected (trivial and "
                "instrumented payloads): every construction, assignment (value, converting, copy, move, nullopt), emplace, reset and "
                "swap form, with self-assignment, assignment from the variant's own alternative, moved-from reuse and trapped "
                "misuse injected; after every step engaged flag / index / value, every provided relational operator, value_or, "
                "and_then / or_else call counts, get_if / holds_alternative and one- and two-variant visit are compared with the model.",
        "note": "std::optional is the reference for optional; variant and expected use small executable models that carry the std "
                "semantics (std::expected is C++23 and the suite is built as C++20). How a state is reached (number of special-member "
                "calls) is not compared.",
        "ref": "DESIGN.md section 3 C07",
    },
    "C17": {
        "text": "Seeded history simulation of etl::bitset<W> and basic_bitset<W,Word> for the thirteen widths around the word "
                "boundaries and four word types against std::bitset<W>: whole-set and single-bit set/reset/flip, proxy assignment / "
                "copy / flip, &= |= ^= (also with itself), binary & | ^ and ~, construction from integers and from string_view / "
                "C strings with pos, n and custom characters; after every step all observers that would expose dirty padding bits "
                "(count, all, any, none, ==, to_ulong/to_ullong, to_string) are compared. Faults: position >= size and over-long "
                "strings trapped mid-history, creation in dirty memory.",
        "note": "Thinnest fit of the technique (no resource to exhaust, no foreign code): it is claimed because the property is about "
                "histories in which one operation corrupts padding and a later one observes it. Trusts std::bitset.",
        "ref": "DESIGN.md section 3 C17",
    },
    "C20": {
        "text": "Seeded histories of construct / copy / move / assign (callable, wrapper, nullptr) / swap / reset / call on "
                "inplace_function with callables of every size up to the capacity (function pointers, trivially and non-trivially "
                "copyable captures), converting copies and moves between capacities, self-assignment and self-swap, calls of empty "
                "and moved-from wrappers (trapped through the exception handler); function_ref, reference_wrapper, bind_front "
                "(all four call forms), not_fn and invoke over stateful targets; pair and tuple construction, assignment, swap, "
                "get on all value categories, apply, tuple_cat, make_from_tuple and comparisons. Oracle: the instrumented target's "
                "call log (exactly one call, which instance, argument values / addresses / value categories, result) against a "
                "trivial model, std::pair / std::tuple for the value types.",
        "note": "The comparison part of pair/tuple is stateless and is included only because they are pool objects with assignment "
                "and swap histories. lvalue tuple_cat and tuple structured bindings are ill-formed in the library (open known "
                "findings) and excluded.",
        "ref": "DESIGN.md section 3 C20",
    },
    "C09": {
        "text": "Seeded history simulation of static_set and flat_set (over static_vector) with int and instrumented keys, capacities "
                "1,3,4 and comparators less, greater and transparent less<> against std::set, plus flat_multiset construction from "
                "arbitrary containers: every (iterator,bool) / erased-count result, every lookup for every key of a 6-key universe "
                "after every step, strict ordering by the set's own comparator, refusal of a new key at capacity (static_set: "
                "{_,false}; flat_set: the backing container's precondition traps) with the set unchanged.",
        "note": "Trusts libstdc++ std::set. inplace_vector cannot back flat_set (no positional emplace/erase) and is not simulated; "
                "static_set::equal_range is ill-formed (open known finding) and excluded.",
        "ref": "DESIGN.md section 3 C09",
    },
    "C05": {
        "text": "A catalogue of precondition-violating calls (at the boundary, +1, max) is injected at seeded points of container "
                "histories in contract-checking builds; the user-replaceable handler must be entered, with a location, before any damage "
                "(guards, sanitizer, lifetime registry) and with the object unmodified for argument-visible violations; the history then "
                "continues on the same object. All valid steps of all simulations double as the no-spurious-firing half.",
        "note": "The handler leaves by longjmp (the seam is [[noreturn]]); 'some guard fires before damage' is required, not a particular "
                "guard line. TETL_ENABLE_CONTRACT_CHECKS in quick, plus _SAFE in thorough.",
        "ref": "DESIGN.md section 3 C05 and appendix A",
    },
}

NOT_APPLICABLE = {
    "C06": "algorithms are pure functions of their input ranges and callable: no object history, fault or environment for a simulator to own (sampling inputs would be property-based testing)",
    "C08": "string_view members are pure functions of (view, needle, pos, count); the only fault that can strike a view is misuse, which is in C05's catalogue",
    "C10": "formatting and parsing are pure functions of (value, base, buffer length) / of the character sequence; no history in which a fault could strike",
    "C11": "calendar conversions are closed-form integer arithmetic on values; the anchored code contains no clock",
    "C12": "duration arithmetic and casts are pure rational arithmetic on tick counts; no clock or timer is involved",
    "C13": "compares constant evaluation with run-time execution of pure functions: a build-configuration question with no run-time environment to simulate",
    "C14": "bit and integer utilities are pure integer functions",
    "C15": "type traits, concepts, limits and ratio are decided entirely at compile time",
    "C16": "cmath functions are pure floating-point functions of their arguments",
    "C18": "cctype/cstring/cwchar reimplementations are pure functions of their arguments (including the destination extent)",
    "C19": "layout mappings, mdspan/mdarray access and span slicing are pure index arithmetic; their misuse preconditions are in C05's catalogue",
}
