// Family `set`: static_set and flat_set histories against std::set, flat_multiset construction.
// Oracles: differential + strict-order invariant + refusal at capacity (C09), lifetime registry (C03),
// memory (C02), contract (C05: flat_set over a full static_vector traps in the backing container).
#include <etl/flat_set.hpp>
#include <etl/functional.hpp>
#include <etl/set.hpp>
#include <etl/vector.hpp>

#if !defined(SIM_PART)
    #define SIM_PART 0
#endif
#if SIM_PART == 0
    #define SIM_MAIN_TU 1
#endif
#include "../sim/composite.hpp"
#include "../sim/driver.hpp"
#include "../sim/onepass.hpp"
#include "../sim/worker.hpp"

#include <algorithm>
#include <set>
#include <vector>

namespace {

using namespace sim;

// a lookup key that stands for a whole group of int keys (2g and 2g+1) under a transparent comparator
struct Group {
    int g;
};

inline auto operator<(int a, Group b) -> bool { return (a >= 0 ? a / 2 : -1) < b.g; }

inline auto operator<(Group b, int a) -> bool { return b.g < (a >= 0 ? a / 2 : -1); }


constexpr int kUniverse = 6;

enum class SK { static_set, flat_set };

template <typename Set, typename K, size_t N, typename MCmp, SK Which, bool Transparent>
struct SetDriver : DriverBase<SetDriver<Set, K, N, MCmp, Which, Transparent>> {
    using Base = DriverBase<SetDriver<Set, K, N, MCmp, Which, Transparent>>;
    using Base::begin_op;
    using Base::call;
    using Base::ctx;
    using Base::misuse;
    using Base::observe;
    using Base::plan;
    using Base::pool;
    using Base::skip;
    using Model = std::set<int, MCmp>;
    using Cont  = etl::static_vector<K, N>;
    static constexpr bool isFlat  = Which == SK::flat_set;
    static constexpr bool tracked = is_tracked_v<K>;
    using Hetero = etl::conditional_t<tracked, int, long>;

    Set* obj[3]   = {nullptr, nullptr, nullptr};
    bool moved[3] = {false, false, false};
    Model model[3];

    SetDriver(Plan const& p, Ctx& c)
        : Base(p, c)
    {
    }

    static auto mk(int v) -> K { return K(v); }

    auto raw(int s) -> void* { return arena_prepare(s, sizeof(Set), plan.cfg, static_cast<uint64_t>(ctx.step + 1), alignof(Set)); }

    void create_default(int s)
    {
        bool const defaultInit = ((plan.cfg.create >> s) & 1U) != 0;
        void* mem              = raw(s);
        guarded(true, [&] {
            if (defaultInit) {
                obj[s] = new (mem) Set;
            } else {
                obj[s] = new (mem) Set{};
            }
        });
        if (defaultInit) {
            SIM_COUNT("F3.default_init_in_dirty_memory");
        } else {
            SIM_COUNT("F3.value_init_in_dirty_memory");
        }
        model[s].clear();
        moved[s] = false;
    }

    void destroy(int s)
    {
        if (obj[s] == nullptr) {
            return;
        }
        auto* lo = slot_obj(s);
        guarded(true, [&] { obj[s]->~Set(); });
        if constexpr (tracked) {
            if (reg().live_in(lo, lo + sizeof(Set)) != 0) {
                ctx.violation("C03", "lifetime:alive-after-owner-destroyed", "keys alive inside a destroyed set");
                reg().forget_range(lo, lo + sizeof(Set));
            }
        }
        if (!arena_guards_ok(s)) {
            ctx.violation("C02", "memory:guard-damaged", "guard bytes around the set were overwritten");
        }
        arena_retire(s);
        obj[s] = nullptr;
    }

    auto sane(int s) -> bool { return obj[s]->size() <= N; }

    // re-synchronise: the model takes whatever keys the SUT shows (as a set: duplicates/order problems are reported once)
    void resync(int s)
    {
        if (obj[s] == nullptr) {
            return;
        }
        if (!sane(s)) {
            ctx.stop = true;
            return;
        }
        model[s].clear();
        bool broken = false;
        guarded(false, [&] {
            for (auto it = obj[s]->begin(); it != obj[s]->end(); ++it) {
                broken = !model[s].insert(static_cast<int>(value_of(*it))).second || broken;
            }
        });
        if (broken || model[s].size() != obj[s]->size()) {
            ctx.stop = true; // duplicates inside the SUT: the rest of the history cannot be modelled
        }
    }

    auto rank_of(Set const& v, typename Set::const_iterator it) -> long { return static_cast<long>(it - v.begin()); }

    auto check_state(int s, char const* prop, char const* prefix) -> bool
    {
        Set& v         = *obj[s];
        Model const& m = model[s];
        bool mismatch  = false;
        auto bad       = [&](char const* what, long long got, long long want) {
            mismatch = true;
            ctx.violation(
                prop,
                std::string(prefix) + ":" + what,
                std::string(what) + " got " + std::to_string(got) + " want " + std::to_string(want) + " (slot " + std::to_string(s) + ")"
            );
        };
        bool ok = observe("state", [&] {
            Set const& cv = v;
            if (cv.size() > N) {
                bad("size>capacity", static_cast<long long>(cv.size()), static_cast<long long>(N));
                ctx.stop = true;
                return;
            }
            if (cv.max_size() != N) {
                bad("max_size", static_cast<long long>(cv.max_size()), static_cast<long long>(N));
            }
            if (moved[s]) {
                return; // a moved-from set only has to be valid; its keys are unspecified
            }
            // strict order by the set's own comparator, whatever the model says
            auto cmp = cv.key_comp();
            for (auto it = cv.begin(); it != cv.end(); ++it) {
                if (it != cv.begin() && !cmp(*(it - 1), *it)) {
                    bad("order", value_of(*(it - 1)), value_of(*it));
                    return;
                }
            }
            if (cv.size() != m.size()) {
                bad("size", static_cast<long long>(cv.size()), static_cast<long long>(m.size()));
                return;
            }
            if (cv.empty() != m.empty()) {
                bad("empty", cv.empty(), m.empty());
            }
            if constexpr (!isFlat) {
                if (cv.full() != (m.size() == N)) {
                    bad("full", cv.full(), m.size() == N);
                }
            }
            auto mi = m.begin();
            for (auto it = cv.begin(); it != cv.end(); ++it, ++mi) {
                if (value_of(*it) != *mi) {
                    bad("element", value_of(*it), *mi);
                    return;
                }
            }
            auto mr = m.rbegin();
            size_t n = 0;
            for (auto it = cv.rbegin(); it != cv.rend(); ++it, ++mr, ++n) {
                if (n >= m.size() || value_of(*it) != *mr) {
                    bad("reverse-element", 0, 1);
                    return;
                }
            }
            if (n != m.size() || v.end() - v.begin() != static_cast<long>(m.size()) || cv.cend() - cv.cbegin() != static_cast<long>(m.size())) {
                bad("iterator-distance", static_cast<long long>(n), static_cast<long long>(m.size()));
                return;
            }
            // lookups for every key of the universe (and one beyond on each side)
            for (int key = -1; key <= kUniverse; ++key) {
                K const k       = mk(key);
                auto const mf   = m.find(key);
                long const wantFind = mf == m.end() ? static_cast<long>(m.size()) : static_cast<long>(std::distance(m.begin(), mf));
                long const wantLb   = static_cast<long>(std::distance(m.begin(), m.lower_bound(key)));
                long const wantUb   = static_cast<long>(std::distance(m.begin(), m.upper_bound(key)));
                if (rank_of(cv, cv.find(k)) != wantFind || rank_of(cv, v.find(k)) != wantFind) {
                    bad("find", rank_of(cv, cv.find(k)), wantFind);
                    return;
                }
                if (cv.contains(k) != (mf != m.end())) {
                    bad("contains", cv.contains(k), mf != m.end());
                    return;
                }
                if (cv.count(k) != m.count(key)) {
                    bad("count", static_cast<long long>(cv.count(k)), static_cast<long long>(m.count(key)));
                    return;
                }
                if (rank_of(cv, cv.lower_bound(k)) != wantLb || rank_of(cv, v.lower_bound(k)) != wantLb) {
                    bad("lower_bound", rank_of(cv, cv.lower_bound(k)), wantLb);
                    return;
                }
                if (rank_of(cv, cv.upper_bound(k)) != wantUb || rank_of(cv, v.upper_bound(k)) != wantUb) {
                    bad("upper_bound", rank_of(cv, cv.upper_bound(k)), wantUb);
                    return;
                }
                if constexpr (isFlat) {
                    auto er  = cv.equal_range(k);
                    auto er2 = v.equal_range(k);
                    if (rank_of(cv, er.first) != wantLb || rank_of(cv, er.second) != wantUb || rank_of(cv, er2.first) != wantLb
                        || rank_of(cv, er2.second) != wantUb) {
                        bad("equal_range", rank_of(cv, er.first), wantLb);
                        return;
                    }
                }
                if constexpr (Transparent) {
                    Hetero const hk = static_cast<Hetero>(key);
                    if (rank_of(cv, cv.find(hk)) != wantFind || rank_of(cv, v.find(hk)) != wantFind) {
                        bad("find-heterogeneous", rank_of(cv, cv.find(hk)), wantFind);
                        return;
                    }
                    if (cv.contains(hk) != (mf != m.end()) || cv.count(hk) != m.count(key)) {
                        bad("contains-heterogeneous", cv.contains(hk), mf != m.end());
                        return;
                    }
                    if (rank_of(cv, cv.lower_bound(hk)) != wantLb || rank_of(cv, v.lower_bound(hk)) != wantLb
                        || rank_of(cv, cv.upper_bound(hk)) != wantUb || rank_of(cv, v.upper_bound(hk)) != wantUb) {
                        bad("bounds-heterogeneous", rank_of(cv, cv.lower_bound(hk)), wantLb);
                        return;
                    }
                    if constexpr (isFlat) {
                        auto er = cv.equal_range(hk);
                        if (rank_of(cv, er.first) != wantLb || rank_of(cv, er.second) != wantUb) {
                            bad("equal_range-heterogeneous", rank_of(cv, er.first), wantLb);
                            return;
                        }
                    }
                    if constexpr (std::is_same_v<K, int>) {
                        // a heterogeneous key that is equivalent to SEVERAL elements (all keys of one group): count is
                        // their number, contains is "at least one", find names one of them, the bounds enclose them
                        Group const grp{k >= 0 ? k / 2 : -1};
                        long glb = 0, gub = 0;
                        for (int e : m) {
                            glb += (e < grp) ? 1 : 0;
                            gub += !(grp < e) ? 1 : 0;
                        }
                        long const gcount = gub - glb;
                        long const gfind  = rank_of(cv, cv.find(grp));
                        if (static_cast<long>(cv.count(grp)) != gcount || cv.contains(grp) != (gcount > 0)) {
                            bad("count-of-a-group", static_cast<long long>(cv.count(grp)), gcount);
                            return;
                        }
                        if (rank_of(cv, cv.lower_bound(grp)) != glb || rank_of(cv, cv.upper_bound(grp)) != gub
                            || (gcount > 0 ? (gfind < glb || gfind >= gub) : gfind != static_cast<long>(m.size()))) {
                            bad("bounds-of-a-group", rank_of(cv, cv.lower_bound(grp)), glb);
                            return;
                        }
                    }
                }
            }
        });
        if (!ok) {
            ctx.stop = true;
        }
        return !mismatch;
    }

    void check_lifetime(int s)
    {
        if constexpr (tracked) {
            if (!sane(s)) {
                return;
            }
            auto* lo   = slot_obj(s);
            size_t n   = obj[s]->size();
            size_t got = reg().live_in(lo, lo + sizeof(Set));
            if (got != n) {
                ctx.violation(
                    "C03",
                    got > n ? "lifetime:leak-inside-owner" : "lifetime:missing-element",
                    std::to_string(got) + " live keys inside the set, size() is " + std::to_string(n)
                );
                return;
            }
            for (auto it = obj[s]->begin(); it != obj[s]->end(); ++it) {
                if (!reg().is_live(&*it)) {
                    ctx.violation("C03", "lifetime:dead-element-in-range", "a key in [begin,end) is not alive");
                    return;
                }
            }
        }
    }

    void check_relations()
    {
        for (int x = 0; x < pool; ++x) {
            for (int y = 0; y < pool; ++y) {
                if (obj[x] == nullptr || obj[y] == nullptr || moved[x] || moved[y]) {
                    continue;
                }
                Set const& a = *obj[x];
                Set const& b = *obj[y];
                bool r[6]{};
                if (!observe("relational", [&] {
                        r[0] = a == b;
                        r[1] = a != b;
                        r[2] = a < b;
                        r[3] = a <= b;
                        r[4] = a > b;
                        r[5] = a >= b;
                    })) {
                    return;
                }
                auto const& ma = model[x];
                auto const& mb = model[y];
                // std::set compares element-wise with == and <, not with the comparator
                // (the relational operators compare the ELEMENTS with their own operators, not with the set's comparator)
                using RelT = std::conditional_t<std::is_same_v<K, sim::Coarse>, sim::Coarse, int>;
                std::vector<RelT> va(ma.begin(), ma.end());
                std::vector<RelT> vb(mb.begin(), mb.end());
                bool const w[6] = {va == vb, va != vb, va < vb, va <= vb, va > vb, va >= vb};
                static char const* const names[6] = {"==", "!=", "<", "<=", ">", ">="};
                for (int k = 0; k < 6; ++k) {
                    if (r[k] != w[k]) {
                        ctx.violation("C09", std::string("diff:relational:") + names[k], "operator differs from std::set");
                        return;
                    }
                }
            }
        }
    }

    void observe_all()
    {
        uint64_t sh = hstr(plan.scenario.c_str());
        for (int s = 0; s < pool && !ctx.stop; ++s) {
            if (obj[s] == nullptr) {
                continue;
            }
            if (!check_state(s, "C09", "diff")) {
                if (ctx.stop) {
                    break;
                }
                resync(s);
            }
            if (ctx.stop) {
                break;
            }
            check_lifetime(s);
            if (!arena_guards_ok(s)) {
                ctx.violation("C02", "memory:guard-damaged", "guard bytes around the set were overwritten");
                arena_guards_repair(s);
            }
            ctx.log.s(" |");
            ctx.log.u(obj[s]->size());
            if (!moved[s]) {
                uint64_t eh = obj[s]->size();
                std::string txt;
                guarded(false, [&] {
                    for (auto it = obj[s]->begin(); it != obj[s]->end(); ++it) {
                        eh = mix64(eh ^ static_cast<uint64_t>(value_of(*it)));
                        if (ctx.log.text) {
                            txt += (txt.empty() ? "" : ",") + std::to_string(value_of(*it));
                        }
                    }
                });
                ctx.log.feed(eh);
                if (ctx.log.text) {
                    ctx.log.out += " {" + txt + "}";
                }
                sh = mix64(sh ^ eh ^ (static_cast<uint64_t>(s) << 56));
            } else {
                ctx.log.s(" moved-from");
                sh = mix64(sh ^ 0x77);
            }
        }
        if (!ctx.stop) {
            check_relations();
        }
        if constexpr (tracked) {
            Base::temporaries_must_be_gone();
        }
        if (g_counting) {
            states().insert(sh);
            transitions().insert(mix64(sh ^ hstr(ctx.op)));
        }
    }

    void changed(size_t before, size_t after)
    {
        ++ctx.stateChanging;
        if ((after == N && before != N) || (after == 0 && before != 0)) {
            ++ctx.boundaryEvents;
        }
    }

    // pair<iterator,bool> of an insertion against std::set's
    void check_insert_result(char const* what, Set& v, typename Set::iterator it, bool inserted, int key, bool wantInserted, Model const& after)
    {
        if (inserted != wantInserted) {
            ctx.violation("C09", std::string("diff:") + what + ":inserted-flag", "returned " + std::to_string(inserted) + " want " + std::to_string(wantInserted));
            return;
        }
        long const want = static_cast<long>(std::distance(after.begin(), after.find(key)));
        if (it == nullptr || it < v.begin() || it > v.end() || (it - v.begin()) != want) {
            ctx.violation(
                "C09",
                std::string("diff:") + what + ":returned-iterator",
                "returned rank " + (it == nullptr ? std::string("null") : std::to_string(it - v.begin())) + " want " + std::to_string(want)
            );
        }
    }

    void step(Step const& st)
    {
        int const a = static_cast<int>(st.a % static_cast<uint32_t>(pool));
        int const b = static_cast<int>(st.b % static_cast<uint32_t>(pool));
        char const* name = ops()[static_cast<size_t>(st.op)].name;
        std::string const op = name;
        begin_op(name, a);
        Set& v          = *obj[a];
        Model& m        = model[a];
        size_t const sz = m.size();
        bool const flt  = st.flt != 0;
        count_dyn(std::string("op.") + name + (sz == 0 ? ".empty" : (sz == N ? ".full" : ".mid")));
        if (moved[a] && op != "copy_assign" && op != "move_assign" && op != "clear" && op != "recreate") {
            skip();
            return;
        }
        if (moved[a]) {
            SIM_COUNT("F7.moved_from_reused");
        }
        int const key = static_cast<int>(st.v[0] % kUniverse);

        if (op == "insert_copy" || op == "insert_move" || op == "emplace" || op == "insert_hint" || op == "emplace_hint"
            || op == "insert_alias") {
            if (!isFlat && (op == "insert_hint" || op == "emplace_hint")) {
                skip();
                return;
            }
            int k = key;
            if (op == "insert_alias") {
                if (sz == 0) {
                    skip();
                    return;
                }
                SIM_COUNT("F6.insert_own_element");
                auto mi = m.begin();
                std::advance(mi, static_cast<long>(st.k[0] % sz));
                k = *mi;
            }
            ctx.log.kv("key", k);
            bool const present = m.count(k) != 0;
            bool const full    = sz == N;
            bool const refuse  = full && !present;
            bool expectTrap    = false;
            if (refuse) {
                if constexpr (isFlat) {
                    // the backing static_vector is full: its precondition is violated
                    if (!(flt && misuse)) {
                        skip();
                        return;
                    }
                    expectTrap          = true;
                    this->userCodeCheck = false;
                } else {
                    // static_set documents a refusal: {_, false}, unchanged
                    ++ctx.faultsFired;
                    ++ctx.boundaryEvents;
                    SIM_COUNT("F1.insert_refused_at_capacity");
                    this->answerProp = "C09";
                }
            }
            if (full && present) {
                SIM_COUNT("reach.insert_existing_key_into_full_set");
            }
            K tmp = mk(k);
            typename Set::iterator it{};
            bool inserted = false;
            size_t const hintRank = static_cast<size_t>(st.k[1] % (sz + 1));
            bool ok = call(a, expectTrap, false, [&] {
                if (op == "insert_copy") {
                    auto r   = v.insert(static_cast<K const&>(tmp));
                    it       = r.first;
                    inserted = r.second;
                } else if (op == "insert_alias") {
                    auto r   = v.insert(static_cast<K const&>(*(v.begin() + static_cast<long>(st.k[0] % sz))));
                    it       = r.first;
                    inserted = r.second;
                } else if (op == "insert_move") {
                    auto r   = v.insert(static_cast<K&&>(tmp));
                    it       = r.first;
                    inserted = r.second;
                } else if (op == "emplace") {
                    if constexpr (std::is_same_v<K, int>) {
                        if (st.k[2] % 3 == 0) {
                            // an argument of another type: the key is constructed from it first (here: truncated), and
                            // only then looked up - also with a transparent comparator, as std::set does
                            auto r   = v.emplace(static_cast<double>(k) + 0.75);
                            it       = r.first;
                            inserted = r.second;
                            return;
                        }
                    }
                    auto r   = v.emplace(k);
                    it       = r.first;
                    inserted = r.second;
                } else {
                    if constexpr (isFlat) {
                        auto hint = v.cbegin() + static_cast<long>(hintRank);
                        if (op == "insert_hint") {
                            it = st.k[2] % 2 == 0 ? v.insert(hint, static_cast<K const&>(tmp)) : v.insert(hint, static_cast<K&&>(tmp));
                        } else {
                            it = v.emplace_hint(hint, k);
                        }
                        inserted = !present;
                    }
                }
            });
            if (!ok) {
                return;
            }
            if (refuse) {
                ctx.log.s(" ->refused");
                if (inserted) {
                    ctx.violation("C09", "refusal:reported-success", "insert of a new key into a full set reported success");
                }
                return; // unchanged state is verified by observe_all against the unchanged model
            }
            m.insert(k);
            check_insert_result(name, v, it, inserted, k, !present, m);
            if (!present) {
                changed(sz, m.size());
            }
            return;
        }
        if (op == "insert_range") {
            size_t n = static_cast<size_t>(st.k[0] % 5);
            ctx.log.kv("n", static_cast<long long>(n));
            std::vector<int> vals;
            Model trial = m;
            for (size_t i = 0; i < n; ++i) {
                vals.push_back(static_cast<int>((st.v[i % 4] + static_cast<int64_t>(i)) % kUniverse));
                trial.insert(vals.back());
                ctx.log.i(vals.back());
            }
            if (trial.size() > N) {
                // would exceed the capacity part-way: static_set refuses the overflowing keys (order dependent), flat_set traps
                skip();
                return;
            }
            ExactBuf<K> buf(n);
            for (size_t i = 0; i < n; ++i) {
                new (buf.p + i) K(vals[i]);
            }
            bool ok = call(a, false, false, [&] { v.insert(static_cast<K const*>(buf.begin()), static_cast<K const*>(buf.end())); });
            for (size_t i = 0; i < n; ++i) {
                buf.p[i].~K();
            }
            if (ok) {
                if (trial.size() != sz) {
                    changed(sz, trial.size());
                }
                m = trial;
            }
            return;
        }
        if (op == "erase_key") {
            ctx.log.kv("key", key);
            size_t ret = 0;
            K tmp      = mk(key);
            bool ok    = call(a, false, false, [&] { ret = v.erase(static_cast<K const&>(tmp)); });
            if (ok) {
                size_t const want = m.erase(key);
                if (ret != want) {
                    ctx.violation("C09", "diff:erase:returned-count", "erase(key) returned " + std::to_string(ret) + " want " + std::to_string(want));
                }
                if (want != 0) {
                    changed(sz, m.size());
                }
            }
            return;
        }
        if (op == "erase_it") {
            if (sz == 0) {
                skip();
                return;
            }
            size_t const r = static_cast<size_t>(st.k[0] % sz);
            ctx.log.kv("rank", static_cast<long long>(r));
            typename Set::iterator ret{};
            bool ok = call(a, false, false, [&] {
                if constexpr (isFlat) {
                    ret = st.k[1] % 2 == 0 ? v.erase(v.begin() + static_cast<long>(r)) : v.erase(v.cbegin() + static_cast<long>(r));
                } else {
                    ret = v.erase(v.begin() + static_cast<long>(r));
                }
            });
            if (ok) {
                auto mi = m.begin();
                std::advance(mi, static_cast<long>(r));
                m.erase(mi);
                if (ret - v.begin() != static_cast<long>(r)) {
                    ctx.violation("C09", "diff:erase:returned-iterator", "erase(pos) returned rank " + std::to_string(ret - v.begin()));
                }
                changed(sz, m.size());
            }
            return;
        }
        if (op == "erase_range") {
            size_t const f = static_cast<size_t>(st.k[0] % (sz + 1));
            size_t const l = f + static_cast<size_t>(st.k[1] % (sz - f + 1));
            ctx.log.kv("first", static_cast<long long>(f));
            ctx.log.kv("last", static_cast<long long>(l));
            typename Set::iterator ret{};
            bool ok = call(a, false, false, [&] {
                if constexpr (isFlat) {
                    ret = v.erase(v.cbegin() + static_cast<long>(f), v.cbegin() + static_cast<long>(l));
                } else {
                    ret = v.erase(v.begin() + static_cast<long>(f), v.begin() + static_cast<long>(l));
                }
            });
            if (ok) {
                auto mf = m.begin();
                std::advance(mf, static_cast<long>(f));
                auto ml = m.begin();
                std::advance(ml, static_cast<long>(l));
                m.erase(mf, ml);
                if (ret - v.begin() != static_cast<long>(f)) {
                    ctx.violation("C09", "diff:erase:returned-iterator", "erase(first,last) returned rank " + std::to_string(ret - v.begin()) + " want " + std::to_string(f));
                }
                if (f != l) {
                    changed(sz, m.size());
                }
            }
            return;
        }
        if (op == "erase_if") {
            if constexpr (isFlat) {
                int const parity = key % 2;
                ctx.log.kv("parity", parity);
                size_t ret      = 0;
                int predCalls   = 0;
                bool sawForeign = false;
                int const quota = st.k[0] % 3 == 1 ? 1 + static_cast<int>(st.k[1] % 2) : 1000; // a predicate with state
                bool ok         = call(a, false, false, [&] {
                    int q = quota; // the state lives outside the predicate: algorithms may copy their function objects
                    ret   = etl::erase_if(v, [parity, &predCalls, &sawForeign, &q](K const& x) {
                        ++predCalls;
                        long long const xv = value_of(x);
                        sawForeign         = sawForeign || xv == kMovedFrom || xv == -4242 || xv == -9999;
                        if (xv % 2 == parity && q > 0) {
                            --q;
                            return true;
                        }
                        return false;
                    });
                });
                if (ok) {
                    size_t const before = m.size();
                    size_t const want   = std::erase_if(m, [parity, q = quota](int x) mutable {
                        if (x % 2 == parity && q > 0) {
                            --q;
                            return true;
                        }
                        return false;
                    });
                    if (predCalls != static_cast<int>(before) || sawForeign) {
                        ctx.violation("C09", "diff:erase_if:predicate-calls", "erase_if showed its predicate " + std::to_string(predCalls) + " keys for " + std::to_string(before) + (sawForeign ? " (one of them moved-from or destroyed)" : ""));
                    }
                    if (ret != want) {
                        ctx.violation("C09", "diff:erase_if:returned-count", "erase_if returned " + std::to_string(ret) + " want " + std::to_string(want));
                    }
                    if (want != 0) {
                        changed(sz, m.size());
                    }
                }
            } else {
                skip();
            }
            return;
        }
        if (op == "clear") {
            bool ok = call(a, false, false, [&] { v.clear(); });
            if (ok) {
                m.clear();
                moved[a] = false;
                changed(sz, 0);
            }
            return;
        }
        if (op == "swap") {
            if (obj[b] == nullptr || moved[a] || moved[b]) {
                skip();
                return;
            }
            ctx.log.kv("b", b);
            if (a == b) {
                SIM_COUNT("F6.self_swap");
            }
            bool ok = call(a, false, false, [&] {
                if (st.k[0] % 2 == 0) {
                    v.swap(*obj[b]);
                } else {
                    using etl::swap;
                    swap(v, *obj[b]);
                }
            });
            if (ok) {
                if (a != b) {
                    std::swap(model[a], model[b]);
                    ++ctx.boundaryEvents;
                }
                ++ctx.stateChanging;
            } else {
                resync(b);
            }
            return;
        }
        if (op == "copy_assign") {
            if (obj[b] == nullptr || moved[b]) {
                skip();
                return;
            }
            ctx.log.kv("b", b);
            if (a == b) {
                SIM_COUNT("F6.self_copy_assign");
            }
            bool ok = call(a, false, false, [&] { v = static_cast<Set const&>(*obj[b]); });
            if (ok) {
                if (a != b) {
                    model[a] = model[b];
                }
                moved[a] = false;
                changed(sz, model[a].size());
                ++ctx.boundaryEvents;
            }
            return;
        }
        if (op == "move_assign") {
            if (obj[b] == nullptr || moved[b]) {
                skip();
                return;
            }
            ctx.log.kv("b", b);
            if (a == b) {
                // F6: self-move-assignment through an alias: unspecified value, treated as moved-from afterwards (must
                // stay valid, keep its elements' lifetimes balanced, accept assignment / clear / destruction)
                SIM_COUNT("F6.self_move_assign");
                Set& alias = *obj[b];
                bool ok    = call(a, false, false, [&] { v = static_cast<Set&&>(alias); });
                if (ok) {
                    moved[a] = true;
                    ++ctx.boundaryEvents;
                }
                return;
            }
            bool ok = call(a, false, false, [&] { v = static_cast<Set&&>(*obj[b]); });
            if (ok) {
                model[a] = model[b];
                moved[a] = false;
                moved[b] = true;
                SIM_COUNT("F7.moved_from_created");
                changed(sz, model[a].size());
                ++ctx.boundaryEvents;
            } else {
                resync(b);
            }
            return;
        }
        if (op == "recreate") {
            recreate(a, b, st);
            return;
        }
        if (op == "extract_replace") {
            if constexpr (isFlat) {
                extract_replace(a, st);
            } else {
                skip();
            }
            return;
        }
        skip();
    }

    void extract_replace(int a, Step const& st)
    {
        if constexpr (isFlat) {
            Set& v          = *obj[a];
            Model& m        = model[a];
            size_t const sz = m.size();
            int const mode  = static_cast<int>(st.k[0] % 2);
            ctx.log.kv("mode", mode);
            std::vector<int> got;
            bool okAll = true;
            {
                reg().mark_harness_held();
                bool completed = false;
                std::vector<int> other;
                if (mode == 1) {
                    Model o;
                    size_t const n = static_cast<size_t>(st.k[1] % (N + 1));
                    for (size_t i = 0; i < n; ++i) {
                        o.insert(static_cast<int>((st.v[i % 4] + static_cast<int64_t>(i)) % kUniverse));
                    }
                    other.assign(o.begin(), o.end());
                }
                got.reserve(N + 1);
                auto out = guarded(true, [&] {
                    Cont c = static_cast<Set&&>(v).extract();
                    {
                        LibPause pause; // harness code inside the guarded region
                        for (auto const& x : c) {
                            got.push_back(static_cast<int>(value_of(x)));
                        }
                        if (!v.empty()) {
                            okAll = false;
                        }
                    }
                    if (mode == 1) {
                        c.clear();
                        for (int x : other) {
                            c.push_back(K(x));
                        }
                    }
                    v.replace(static_cast<Cont&&>(c));
                    completed = true;
                });
                if (out != Outcome::completed || !completed) {
                    ctx.violation("C05", "contract:spurious", "handler entered in extract/replace at " + trap_site());
                    reg().forgive_outside_arena();
                    resync(a);
                    return;
                }
                std::vector<int> want(m.begin(), m.end());
                if (got != want) {
                    ctx.violation("C09", "diff:extract:contents", "extract() returned " + std::to_string(got.size()) + " keys, the set held " + std::to_string(want.size()));
                }
                if (!okAll) {
                    ctx.violation("C09", "diff:extract:not-empty", "the set is not empty after extract()");
                }
                if (mode == 1) {
                    m.clear();
                    m.insert(other.begin(), other.end());
                }
            }
            changed(sz, m.size());
        }
    }

    void recreate(int a, int b, Step const& st)
    {
        int const nforms = isFlat ? 7 : 4;
        int form         = static_cast<int>(st.k[0] % static_cast<uint64_t>(nforms));
        if ((form == 2 || form == 3) && (a == b || obj[b] == nullptr || moved[b])) {
            form = 0;
        }
        size_t n  = static_cast<size_t>(st.k[1] % (N + 1));
        bool bad  = false;
        if (st.flt != 0 && misuse && (form == 1 || form == 4 || form == 6) && (!isFlat || form != 4)) {
            // a sized range longer than the capacity
            if (!isFlat || form == 6) {
                bad = true;
                n   = N + static_cast<size_t>(st.flt == 1 ? 1 : 2);
            }
        }
        ctx.log.kv("form", form);
        ctx.log.kv("n", static_cast<long long>(n));
        ctx.log.kv("b", b);
        std::vector<int> vals;
        for (size_t i = 0; i < n; ++i) {
            vals.push_back(static_cast<int>((st.v[i % 4] + static_cast<int64_t>(i * 5)) % kUniverse));
        }
        Model asSet(vals.begin(), vals.end());
        std::vector<int> sortedUnique(asSet.begin(), asSet.end());
        if (bad && form == 6) {
            // sorted_unique range longer than the capacity: needs more distinct keys than the universe may offer
            sortedUnique.clear();
            for (size_t i = 0; i < n; ++i) {
                sortedUnique.push_back(static_cast<int>(i));
            }
            if constexpr (!std::is_same_v<MCmp, std::less<int>>) {
                std::reverse(sortedUnique.begin(), sortedUnique.end());
            }
        }
        std::vector<int> const& src = (form == 5 || form == 6) ? sortedUnique : vals;
        ExactBuf<K> buf(src.size());
        for (size_t i = 0; i < src.size(); ++i) {
            new (buf.p + i) K(src[i]);
        }
        size_t const before = model[a].size();
        destroy(a);
        void* mem  = raw(a);
        Set* made  = nullptr;
        ctx.stepClass     = bad ? 2 : 0;
        g_crash.stepClass = ctx.stepClass;
        reg().mark_harness_held();
        auto out = guarded(true, [&] {
            K const* f = buf.begin();
            K const* l = buf.end();
            switch (form) {
            case 1:
                if constexpr (!isFlat) {
                    if (!bad && st.k[2] % 3 == 0) {
                        // the same range through a single-pass input iterator: it can be walked once only
                        OnePassSource<K> once{f, static_cast<size_t>(l - f), 0};
                        made = new (mem) Set(OnePassIt<K>{&once}, OnePassIt<K>{});
                        break;
                    }
                }
                made = new (mem) Set(f, l);
                break;
            case 2: made = new (mem) Set(static_cast<Set const&>(*obj[b])); break;
            case 3: made = new (mem) Set(static_cast<Set&&>(*obj[b])); break;
            case 4:
                if constexpr (isFlat) {
                    Cont c(f, l);
                    made = new (mem) Set(static_cast<Cont const&>(c));
                }
                break;
            case 5:
                if constexpr (isFlat) {
                    Cont c(f, l);
                    made = new (mem) Set(etl::sorted_unique, static_cast<Cont&&>(c));
                }
                break;
            case 6:
                if constexpr (isFlat) {
                    made = new (mem) Set(etl::sorted_unique, f, l);
                }
                break;
            default: made = ((plan.cfg.create >> a) & 1U) != 0 ? new (mem) Set : new (mem) Set{}; break;
            }
        });
        ctx.stepClass     = 0;
        g_crash.stepClass = 0;
        auto cleanup = [&] {
            for (size_t i = 0; i < src.size(); ++i) {
                buf.p[i].~K();
            }
        };
        if (out != Outcome::completed) {
            reg().forgive_outside_arena();
            if constexpr (tracked) {
                reg().forget_range(slot_obj(a), slot_obj(a) + sizeof(Set));
            }
            if (out == Outcome::trapped && bad) {
                Base::trapped_as_expected();
            } else if (out == Outcome::trapped) {
                ctx.violation("C05", "contract:spurious", "handler entered in a valid constructor at " + trap_site());
            }
            arena_retire(a);
            mem = raw(a);
            guarded(true, [&] { made = new (mem) Set{}; });
            obj[a] = made;
            model[a].clear();
            moved[a] = false;
            cleanup();
            return;
        }
        cleanup();
        obj[a]   = made;
        moved[a] = false;
        if (bad) {
            ctx.violation("C05", "contract:not-entered", "constructor precondition violated but the handler was not entered");
            resync(a);
            return;
        }
        Model& m = model[a];
        m.clear();
        switch (form) {
        case 1:
        case 4:
        case 5:
        case 6: m = asSet; break;
        case 2: m = model[b]; break;
        case 3:
            m        = model[b];
            moved[b] = true;
            SIM_COUNT("F7.moved_from_created");
            break;
        default: break;
        }
        changed(before, m.size());
        ++ctx.boundaryEvents;
    }

    void run()
    {
        ctx.step = -1;
        ctx.op   = "create";
        for (int s = 0; s < pool; ++s) {
            create_default(s);
        }
        observe_all();
        ctx.log.nl();
        for (size_t i = 0; i < plan.steps.size() && !ctx.stop; ++i) {
            ctx.step     = static_cast<int>(i);
            g_crash.step = ctx.step;
            step(plan.steps[i]);
            if (ctx.stop) {
                break;
            }
            observe_all();
            ctx.log.nl();
        }
        ctx.op = "destroy";
        if (ctx.stop) {
            reg().reset();
            return;
        }
        for (int s = 0; s < pool; ++s) {
            destroy(s);
        }
    }

    static auto ops() -> std::vector<OpDef> const&
    {
        static std::vector<OpDef> const o = {
            {"insert_copy", 12}, {"insert_move", 10}, {"emplace", 8},   {"insert_hint", 5}, {"emplace_hint", 4}, {"insert_alias", 3},
            {"insert_range", 5}, {"erase_key", 10},   {"erase_it", 6},  {"erase_range", 6}, {"erase_if", 3},     {"clear", 2},
            {"swap", 4},         {"copy_assign", 4},  {"move_assign", 3}, {"recreate", 5},  {"extract_replace", 4},
        };
        return o;
    }
};

// flat_multiset: construction from an arbitrary container must give a weakly ascending permutation of it
template <typename K, size_t N, typename Cmp, typename MCmp>
struct MultisetDriver : DriverBase<MultisetDriver<K, N, Cmp, MCmp>> {
    using Base = DriverBase<MultisetDriver<K, N, Cmp, MCmp>>;
    using Base::ctx;
    using Base::plan;
    using Cont = etl::static_vector<K, N>;
    using MS   = etl::flat_multiset<K, Cont, Cmp>;

    MultisetDriver(Plan const& p, Ctx& c)
        : Base(p, c)
    {
    }

    void resync(int /*s*/) { }

    auto check_state(int /*s*/, char const* /*p*/, char const* /*x*/) -> bool { return true; }

    void run()
    {
        for (size_t i = 0; i < plan.steps.size() && !ctx.stop; ++i) {
            Step const& st = plan.steps[i];
            ctx.step       = static_cast<int>(i);
            g_crash.step   = ctx.step;
            Base::begin_op("construct", 0);
            size_t const n = static_cast<size_t>(st.k[0] % (N + 1));
            std::vector<int> vals;
            for (size_t j = 0; j < n; ++j) {
                vals.push_back(static_cast<int>((st.v[j % 4] * 3 + static_cast<int64_t>(j * (st.k[1] % 7))) % kUniverse));
                ctx.log.i(vals.back());
            }
            std::vector<int> want = vals;
            std::stable_sort(want.begin(), want.end(), MCmp{});
            void* mem = arena_prepare(0, sizeof(MS), plan.cfg, i, alignof(MS));
            MS* ms    = nullptr;
            std::vector<int> got;
            got.reserve(N + 1);
            bool ok = Base::call(-1, false, false, [&] {
                Cont c;
                for (int x : vals) {
                    c.push_back(K(x));
                }
                if (st.k[2] % 3 == 0) {
                    ms = new (mem) MS(static_cast<Cont&&>(c));
                } else if (st.k[2] % 3 == 1) {
                    ms = new (mem) MS(static_cast<Cont const&>(c));
                } else {
                    etl::sort(c.begin(), c.end(), Cmp{});
                    ms = new (mem) MS(etl::sorted_equivalent, static_cast<Cont&&>(c));
                }
            });
            if (!ok) {
                ctx.stop = true;
                break;
            }
            Base::observe("multiset", [&] {
                MS const& c = *ms;
                for (auto it = c.begin(); it != c.end(); ++it) {
                    got.push_back(static_cast<int>(value_of(*it)));
                }
                if (c.size() != n || c.empty() != (n == 0) || c.max_size() != N) {
                    ctx.violation("C09", "diff:multiset:size", "flat_multiset size/empty/max_size wrong");
                }
                size_t r = 0;
                for (auto it = c.rbegin(); it != c.rend(); ++it) {
                    ++r;
                }
                if (r != n) {
                    ctx.violation("C09", "diff:multiset:reverse", "reverse iteration length differs");
                }
            });
            if (got != want) {
                ctx.violation("C09", "diff:multiset:order", "flat_multiset is not the sorted permutation of its source");
            }
            uint64_t eh = n;
            for (int x : got) {
                eh = mix64(eh ^ static_cast<uint64_t>(x));
            }
            ctx.log.feed(eh);
            if (g_counting) {
                states().insert(mix64(eh ^ hstr(plan.scenario.c_str())));
            }
            ++ctx.stateChanging;
            if (n == N || n == 0) {
                ++ctx.boundaryEvents;
            }
            guarded(true, [&] { ms->~MS(); });
            if (!arena_guards_ok(0)) {
                ctx.violation("C02", "memory:guard-damaged", "guard bytes around the multiset were overwritten");
            }
            arena_retire(0);
            if constexpr (is_tracked_v<K>) {
                if (!reg().live.empty()) {
                    ctx.violation("C03", "lifetime:alive-after-owner-destroyed", "keys alive after the multiset was destroyed");
                    reg().reset();
                }
            }
            ctx.log.nl();
        }
    }
};

// ================================================================================================ stateful comparator
// flat_set keeps a comparator OBJECT: two sets of the same type can order their keys differently. Every operation that
// moves keys between sets (swap, copy / move assignment, copy construction) has to move the comparator with them.
// the model-side comparator for Coarse keys (the model stores plain ints)
struct CoarseLessInt {
    auto operator()(int a, int b) const -> bool { return a / 2 < b / 2; }
};

struct DirCmp {
    bool desc = false;

    auto operator()(int a, int b) const -> bool { return desc ? b < a : a < b; }
};

struct FlatCmpDriver : DriverBase<FlatCmpDriver> {
    using Base = DriverBase<FlatCmpDriver>;
    static constexpr size_t N = 4;
    using Cont = etl::static_vector<int, N>;
    using Set  = etl::flat_set<int, Cont, DirCmp>;
    using M    = std::set<int, DirCmp>;

    Set* obj[3] = {nullptr, nullptr, nullptr};
    M model[3];
    bool moved[3] = {false, false, false};

    FlatCmpDriver(Plan const& p, Ctx& c)
        : Base(p, c)
    {
    }

    void resync(int s)
    {
        if (obj[s] == nullptr) {
            return;
        }
        guarded(false, [&] {
            M fresh(DirCmp{obj[s]->key_comp().desc});
            for (int k : *obj[s]) {
                fresh.insert(k);
            }
            model[s] = fresh;
        });
    }

    auto check_state(int s, char const* prop, char const* prefix) -> bool
    {
        bool mismatch = false;
        auto bad      = [&](char const* what) {
            if (!mismatch) {
                mismatch = true;
                ctx.violation(prop, std::string(prefix) + ":" + what, std::string("flat_set with a stateful comparator: ") + what + " differs from std::set (slot " + std::to_string(s) + ")");
            }
        };
        bool ok = observe("flat_set<DirCmp>", [&] {
            Set const& c = *obj[s];
            M const& m   = model[s];
            if (c.key_comp().desc != m.key_comp().desc) {
                bad("comparator");
                return;
            }
            if (c.size() != m.size() || c.empty() != m.empty()) {
                bad("size");
                return;
            }
            auto mi = m.begin();
            for (auto it = c.begin(); it != c.end(); ++it, ++mi) {
                if (*it != *mi) {
                    bad("order");
                    return;
                }
            }
            for (int k = -1; k <= kUniverse; ++k) {
                bool const has = m.count(k) != 0;
                if (c.contains(k) != has || c.count(k) != (has ? 1U : 0U) || (c.find(k) != c.end()) != has) {
                    bad("lookup");
                    return;
                }
                if (has && *c.find(k) != k) {
                    bad("find");
                    return;
                }
                if (c.lower_bound(k) - c.begin() != std::distance(m.begin(), m.lower_bound(k)) || c.upper_bound(k) - c.begin() != std::distance(m.begin(), m.upper_bound(k))) {
                    bad("bounds");
                    return;
                }
            }
        });
        if (!ok) {
            ctx.stop = true;
        }
        return !mismatch;
    }

    void destroy(int s)
    {
        if (obj[s] == nullptr) {
            return;
        }
        guarded(true, [&] { obj[s]->~Set(); });
        if (!arena_guards_ok(s)) {
            ctx.violation("C02", "memory:guard-damaged", "guard bytes around the set were overwritten");
        }
        arena_retire(s);
        obj[s] = nullptr;
    }

    void create(int s, Step const& st, uint64_t salt)
    {
        bool const desc = (st.v[0] + static_cast<int64_t>(salt)) % 2 != 0;
        int const form  = static_cast<int>(st.k[2] % 3);
        size_t const n  = form == 0 ? 0 : static_cast<size_t>(st.k[0] % (N + 1));
        std::vector<int> vals;
        for (size_t j = 0; j < n; ++j) {
            vals.push_back(static_cast<int>((static_cast<uint64_t>(st.v[j % 4]) * 3 + j * (st.k[1] % 7)) % kUniverse));
        }
        M m(DirCmp{desc});
        m.insert(vals.begin(), vals.end());
        std::vector<int> sorted(m.begin(), m.end());
        ExactBuf<int> in(form == 2 ? sorted.size() : vals.size());
        for (size_t j = 0; j < in.n; ++j) {
            in.p[j] = form == 2 ? sorted[j] : vals[j];
        }
        void* mem = arena_prepare(s, sizeof(Set), plan.cfg, static_cast<uint64_t>(ctx.step + 2) + salt, alignof(Set));
        Set* made = nullptr;
        bool ok   = call(-1, false, false, [&] {
            switch (form) {
            case 0: made = new (mem) Set(DirCmp{desc}); break;
            case 1: made = new (mem) Set(in.begin(), in.end(), DirCmp{desc}); break;
            default: made = new (mem) Set(etl::sorted_unique, in.begin(), in.end(), DirCmp{desc}); break;
            }
        });
        if (!ok) {
            ctx.stop = true;
            return;
        }
        obj[s]   = made;
        model[s] = m;
        moved[s] = false;
        ctx.log.kv("desc", desc);
        ctx.log.kv("form", form);
    }

    void step(Step const& st)
    {
        int const a      = static_cast<int>(st.a % static_cast<uint32_t>(pool));
        int const b      = static_cast<int>(st.b % static_cast<uint32_t>(pool));
        char const* name = ops()[static_cast<size_t>(st.op)].name;
        std::string const op = name;
        begin_op(name, a);
        ctx.log.kv("b", b);
        Set& v   = *obj[a];
        M& m     = model[a];
        int const key = static_cast<int>(static_cast<uint64_t>(st.v[0]) % kUniverse);
        if (moved[a] && op != "recreate" && op != "copy_assign" && op != "move_assign" && op != "clear") {
            skip();
            return;
        }
        if (op == "recreate") {
            destroy(a);
            create(a, st, 0);
            ++ctx.stateChanging;
            return;
        }
        if (op == "insert" || op == "emplace") {
            ctx.log.kv("key", key);
            if (m.size() == N && m.count(key) == 0) {
                skip(); // would overflow the backing container: its precondition, covered by the generic set scenarios
                return;
            }
            bool inserted = false;
            long at       = -1;
            bool ok       = call(a, false, false, [&] {
                auto r   = op == "insert" ? v.insert(key) : v.emplace(key);
                inserted = r.second;
                at       = r.first - v.begin();
            });
            if (ok) {
                auto mr = m.insert(key);
                if (inserted != mr.second || at != std::distance(m.begin(), mr.first)) {
                    ctx.violation("C09", std::string("diff:stateful-comparator:") + name, "insert result differs from std::set with the same comparator object");
                }
                ++ctx.stateChanging;
                if (m.size() == N) {
                    ++ctx.boundaryEvents;
                }
            }
            return;
        }
        if (op == "erase") {
            ctx.log.kv("key", key);
            size_t got = 0;
            bool ok    = call(a, false, false, [&] { got = v.erase(key); });
            if (ok) {
                if (got != m.erase(key)) {
                    ctx.violation("C09", "diff:stateful-comparator:erase", "erase(key) count differs from std::set");
                }
                ++ctx.stateChanging;
            }
            return;
        }
        if (op == "clear") {
            if (call(a, false, false, [&] { v.clear(); })) {
                m.clear();
                moved[a] = false;
                ++ctx.stateChanging;
                ++ctx.boundaryEvents;
            }
            return;
        }
        if (obj[b] == nullptr || moved[b]) {
            skip();
            return;
        }
        if (op == "swap") {
            bool ok = call(a, false, false, [&] {
                if (st.k[0] % 2 == 0) {
                    v.swap(*obj[b]);
                } else {
                    using etl::swap;
                    swap(v, *obj[b]);
                }
            });
            if (ok) {
                if (a != b) {
                    std::swap(model[a], model[b]);
                    if (model[a].key_comp().desc != model[b].key_comp().desc) {
                        SIM_COUNT("reach.swap_of_sets_with_different_comparator_state");
                        ++ctx.boundaryEvents;
                    }
                }
                ++ctx.stateChanging;
            }
            return;
        }
        if (op == "copy_assign") {
            bool ok = call(a, false, false, [&] { v = static_cast<Set const&>(*obj[b]); });
            if (ok) {
                if (a != b) {
                    m = model[b];
                }
                moved[a] = false;
                ++ctx.stateChanging;
                ++ctx.boundaryEvents;
            }
            return;
        }
        if (op == "move_assign") {
            if (a == b) {
                skip();
                return;
            }
            bool ok = call(a, false, false, [&] { v = static_cast<Set&&>(*obj[b]); });
            if (ok) {
                m        = model[b];
                moved[a] = false;
                moved[b] = true;
                ++ctx.stateChanging;
                ++ctx.boundaryEvents;
            }
            return;
        }
        skip();
    }

    void run()
    {
        Step init{};
        for (int s = 0; s < pool; ++s) {
            ctx.step  = -1;
            init.v[0] = static_cast<int64_t>((plan.seed >> (5 + s)) & 1U);
            create(s, init, static_cast<uint64_t>(s) + 1);
        }
        for (size_t i = 0; i < plan.steps.size() && !ctx.stop; ++i) {
            ctx.step     = static_cast<int>(i);
            g_crash.step = ctx.step;
            step(plan.steps[i]);
            uint64_t sh = hstr(plan.scenario.c_str());
            for (int s = 0; s < pool && !ctx.stop; ++s) {
                if (obj[s] == nullptr || moved[s]) {
                    continue;
                }
                if (!check_state(s, "C09", "diff:stateful-comparator")) {
                    resync(s);
                }
                if (!arena_guards_ok(s)) {
                    ctx.violation("C02", "memory:guard-damaged", "guard bytes around the set were overwritten");
                    arena_guards_repair(s);
                }
                uint64_t eh = model[s].key_comp().desc ? 77 : 33;
                for (int k : model[s]) {
                    eh = mix64(eh ^ static_cast<uint64_t>(k));
                }
                ctx.log.feed(eh);
                sh = mix64(sh ^ eh ^ (static_cast<uint64_t>(s) << 56));
            }
            if (g_counting) {
                states().insert(sh);
                transitions().insert(mix64(sh ^ hstr(ctx.op)));
            }
            ctx.log.nl();
        }
        for (int s = 0; s < pool; ++s) {
            destroy(s);
        }
    }

    static auto ops() -> std::vector<OpDef> const&
    {
        static std::vector<OpDef> const o = {
            {"recreate", 4}, {"insert", 8}, {"emplace", 4}, {"erase", 5}, {"clear", 1}, {"swap", 6}, {"copy_assign", 4}, {"move_assign", 3},
        };
        return o;
    }
};

// ================================================================================================ emplace arguments
// A key type for which Key(a, b) and Key{a, b} mean different things (like std::vector): emplace must construct the key
// from its arguments with parentheses, as std::set / std::flat_set do.
using sim::BagKey;

template <bool Flat>
struct BagSetDriver : DriverBase<BagSetDriver<Flat>> {
    using Base = DriverBase<BagSetDriver<Flat>>;
    using Base::begin_op;
    using Base::call;
    using Base::ctx;
    using Base::observe;
    using Base::plan;
    using Base::skip;
    static constexpr size_t N = 4;
    using Set = std::conditional_t<Flat, etl::flat_set<BagKey, etl::static_vector<BagKey, N>>, etl::static_set<BagKey, N>>;
    using M   = std::set<BagKey>;

    Set* obj = nullptr;
    M model;

    BagSetDriver(Plan const& p, Ctx& c)
        : Base(p, c)
    {
    }

    void resync(int)
    {
        guarded(false, [&] {
            model.clear();
            for (auto const& k : *obj) {
                model.insert(k);
            }
        });
    }

    auto check_state(int, char const* prop, char const* prefix) -> bool
    {
        bool mismatch = false;
        observe("set<BagKey>", [&] {
            Set const& c = *obj;
            if (c.size() != model.size()) {
                mismatch = true;
            } else {
                auto mi = model.begin();
                for (auto it = c.begin(); it != c.end(); ++it, ++mi) {
                    mismatch = mismatch || !(*it == *mi);
                }
            }
        });
        if (mismatch) {
            ctx.violation(prop, std::string(prefix) + ":keys", "the set does not hold the keys std::set holds after the same emplace / insert calls");
        }
        return !mismatch;
    }

    void run()
    {
        void* mem = arena_prepare(0, sizeof(Set), plan.cfg, 1, alignof(Set));
        obj       = new (mem) Set{};
        for (size_t i = 0; i < plan.steps.size() && !ctx.stop; ++i) {
            Step const& st = plan.steps[i];
            ctx.step       = static_cast<int>(i);
            g_crash.step   = ctx.step;
            char const* name = ops()[static_cast<size_t>(st.op)].name;
            std::string const op = name;
            begin_op(name, 0);
            int const x = static_cast<int>(static_cast<uint64_t>(st.v[0]) % 4);
            int const y = static_cast<int>(static_cast<uint64_t>(st.v[1]) % 4);
            ctx.log.kv("x", x);
            ctx.log.kv("y", y);
            Set& v = *obj;
            if (op == "clear") {
                if (call(0, false, false, [&] { v.clear(); })) {
                    model.clear();
                }
            } else if (op == "erase") {
                BagKey const k(x, y);
                size_t got = 0;
                if (call(0, false, false, [&] { got = v.erase(k); }) && got != model.erase(k)) {
                    ctx.violation("C09", "diff:emplace-arguments:erase", "erase(key) count differs from std::set");
                }
            } else {
                // what std::set would hold afterwards decides whether the call fits
                M trial = model;
                bool wantInserted = false;
                if (op == "emplace2") {
                    wantInserted = trial.emplace(x, y).second;
                } else if (op == "emplace1") {
                    wantInserted = trial.emplace(x).second;
                } else {
                    wantInserted = trial.insert(BagKey(x, y)).second;
                }
                if (trial.size() > N) {
                    skip();
                } else {
                    bool inserted = false;
                    bool ok       = call(0, false, false, [&] {
                        if (op == "emplace2") {
                            inserted = v.emplace(x, y).second;
                        } else if (op == "emplace1") {
                            inserted = v.emplace(x).second;
                        } else {
                            inserted = v.insert(BagKey(x, y)).second;
                        }
                    });
                    if (ok) {
                        if (inserted != wantInserted) {
                            ctx.violation("C09", std::string("diff:emplace-arguments:") + name, "emplace / insert reported another outcome than std::set for the same arguments");
                        }
                        model = trial;
                        ++ctx.stateChanging;
                        if (model.size() == N) {
                            ++ctx.boundaryEvents;
                        }
                    }
                }
            }
            if (!check_state(0, "C09", "diff:emplace-arguments")) {
                resync(0);
            }
            if (!arena_guards_ok(0)) {
                ctx.violation("C02", "memory:guard-damaged", "guard bytes around the set were overwritten");
                arena_guards_repair(0);
            }
            uint64_t eh = model.size();
            for (auto const& k : model) {
                eh = mix64(eh ^ static_cast<uint64_t>(k.code()));
            }
            ctx.log.feed(eh);
            if (g_counting) {
                states().insert(mix64(eh ^ hstr(plan.scenario.c_str())));
                transitions().insert(mix64(eh ^ hstr(ctx.op)));
            }
            ctx.log.nl();
        }
        guarded(true, [&] { obj->~Set(); });
        arena_retire(0);
    }

    static auto ops() -> std::vector<OpDef> const&
    {
        static std::vector<OpDef> const o = {{"emplace2", 8}, {"emplace1", 5}, {"insert", 4}, {"erase", 4}, {"clear", 1}};
        return o;
    }
};

template <typename D>
void add_plain(std::string name)
{
    Scenario s;
    s.family   = "set";
    s.name     = std::move(name);
    s.ops      = D::ops();
    s.props    = {"C09", "C02"};
    s.maxSteps = 30;
    s.run      = [](Plan const& p, Ctx& c) {
        D d(p, c);
        d.run();
    };
    registry().push_back(std::move(s));
}

template <typename Set, typename K, size_t N, typename MCmp, SK Which, bool Transparent>
void add_set(std::string name)
{
    using D = SetDriver<Set, K, N, MCmp, Which, Transparent>;
    Scenario s;
    s.family = "set";
    s.name   = std::move(name);
    s.ops    = D::ops();
    s.props  = {"C09", "C02", "C05"};
    if (is_tracked_v<K> || std::is_same_v<K, sim::Nest>) {
        s.props.emplace_back("C03");
    }
    s.run = [](Plan const& p, Ctx& c) {
        D d(p, c);
        d.run();
    };
    registry().push_back(std::move(s));
}

template <typename K, size_t N>
void add_for(char const* kname)
{
    std::string const k = kname;
    std::string const n = std::to_string(N);
    using V             = etl::static_vector<K, N>;
    add_set<etl::static_set<K, N, etl::less<K>>, K, N, std::less<int>, SK::static_set, false>("static_set<" + k + "," + n + ",less>");
    add_set<etl::static_set<K, N, etl::greater<K>>, K, N, std::greater<int>, SK::static_set, false>("static_set<" + k + "," + n + ",greater>");
    add_set<etl::static_set<K, N, etl::less<>>, K, N, std::less<int>, SK::static_set, true>("static_set<" + k + "," + n + ",less<>>");
    add_set<etl::flat_set<K, V, etl::less<K>>, K, N, std::less<int>, SK::flat_set, false>("flat_set<" + k + "," + n + ",less>");
    add_set<etl::flat_set<K, V, etl::greater<K>>, K, N, std::greater<int>, SK::flat_set, false>("flat_set<" + k + "," + n + ",greater>");
    add_set<etl::flat_set<K, V, etl::less<>>, K, N, std::less<int>, SK::flat_set, true>("flat_set<" + k + "," + n + ",less<>>");
}

template <typename K, size_t N, typename Cmp, typename MCmp>
void add_multi(std::string name)
{
    using D = MultisetDriver<K, N, Cmp, MCmp>;
    Scenario s;
    s.family   = "set";
    s.name     = std::move(name);
    s.ops      = {{"construct", 1}};
    s.props    = {"C09", "C02"};
    s.maxSteps = 12;
    s.run      = [](Plan const& p, Ctx& c) {
        D d(p, c);
        d.run();
    };
    registry().push_back(std::move(s));
}

} // namespace

void register_set_0();
void register_set_1();

#if SIM_PART == 0
void register_set_0()
{
    add_for<int, 1>("int");
    add_for<int, 3>("int");
    add_for<int, 4>("int");
    add_multi<int, 4, etl::less<int>, std::less<int>>("flat_multiset<int,4,less>");
    add_multi<int, 6, etl::greater<int>, std::greater<int>>("flat_multiset<int,6,greater>");
    add_plain<FlatCmpDriver>("flat_set<int,4,stateful-comparator>");
    add_plain<BagSetDriver<false>>("static_set<BagKey,4>");
    add_plain<BagSetDriver<true>>("flat_set<BagKey,4>");
    // keys whose equivalence under the comparator is coarser than operator== (2k and 2k+1 are one key for the set):
    // every lookup, insertion and erasure goes by the comparator, never by ==
    {
        using K = sim::Coarse;
        add_set<etl::static_set<K, 4, etl::less<K>>, K, 4, CoarseLessInt, SK::static_set, false>("static_set<Coarse,4,less>");
        add_set<etl::flat_set<K, etl::static_vector<K, 4>, etl::less<K>>, K, 4, CoarseLessInt, SK::flat_set, false>("flat_set<Coarse,4,less>");
    }
    // keys that own library objects themselves (see sim/composite.hpp)
#if defined(__clang__)
    // (clang 14 cannot compile them: empty placeholders keep the seed -> scenario mapping identical for both compilers)
    for (char const* name : {"static_set<Nest,3,less>", "flat_set<Nest,4,greater>"}) {
        Scenario s;
        s.family          = "set";
        s.name            = name;
        s.ops             = {{"noop", 1}};
        s.props           = {"C09", "C02", "C05", "C03"};
        s.compilerNeutral = false;
        s.run             = [](Plan const&, Ctx&) { };
        registry().push_back(std::move(s));
    }
#else
    {
        using K = sim::Nest;
        add_set<etl::static_set<K, 3, etl::less<K>>, K, 3, std::less<int>, SK::static_set, false>("static_set<Nest,3,less>");
        add_set<etl::flat_set<K, etl::static_vector<K, 4>, etl::greater<K>>, K, 4, std::greater<int>, SK::flat_set, false>("flat_set<Nest,4,greater>");
        for (auto& s : registry()) {
            if (s.name.find("Nest") != std::string::npos) {
                s.compilerNeutral = false;
            }
        }
    }
#endif
}

auto main(int argc, char** argv) -> int
{
    register_set_0();
    register_set_1();
    return sim::worker_main(argc, argv);
}
#elif SIM_PART == 1
void register_set_1()
{
    add_for<sim::Tracked, 1>("Tracked");
    add_for<sim::Tracked, 3>("Tracked");
    add_for<sim::Tracked, 4>("Tracked");
    add_multi<sim::Tracked, 5, etl::less<sim::Tracked>, std::less<int>>("flat_multiset<Tracked,5,less>");
    // over-aligned keys (alignas(32))
    {
        using K = sim::TrackedOA;
        add_set<etl::static_set<K, 3, etl::less<K>>, K, 3, std::less<int>, SK::static_set, false>("static_set<TrackedOA,3,less>");
        add_set<etl::flat_set<K, etl::static_vector<K, 3>, etl::greater<K>>, K, 3, std::greater<int>, SK::flat_set, false>("flat_set<TrackedOA,3,greater>");
    }
}
#endif
