// Family `str`: basic_inplace_string histories against std::basic_string.
// The same generic code drives both the SUT and the model (their APIs mirror each other), so an overload with a
// wrong default or clamp cannot agree with the model by construction of the test.
// Oracles: differential + terminator/size invariant (C04), memory (C02), contract (C05).
#include <etl/string.hpp>
#include <etl/string_view.hpp>
#include <etl/charconv.hpp>
#include <etl/strings.hpp>

#if !defined(SIM_PART)
    #define SIM_PART 0
#endif
#if SIM_PART == 0
    #define SIM_MAIN_TU 1
#endif
#include "../sim/onepass.hpp"
#include "../sim/worker.hpp"

#include <stdexcept>
#include <string>
#include <string_view>

namespace {

using namespace sim;

constexpr int kTemp = kSlots - 1;
constexpr size_t npos = static_cast<size_t>(-1);

enum Kind {
    K_SET,
    K_SETFROM,
    K_APPEND,
    K_INSERT,
    K_ERASE,
    K_REPLACE,
    K_RESIZE,
    K_CLEAR,
    K_POP,
    K_SWAP,
    K_WRITE,
    K_ERASEVAL,
    K_PLUS,
    K_RECREATE,
    K_FIND,
    K_RFIND,
    K_FFO,
    K_FLO,
    K_FFNO,
    K_FLNO,
    K_COMPARE,
    K_AFFIX,
    K_SUBSTR,
    K_COPYOUT,
    K_REL,
    K_MISUSE,
    K_NUMBER,
    K_COUNT_
};

std::vector<OpDef> const kOps = {
    {"set", 8},      {"set_from", 5}, {"append", 12},       {"insert", 9},       {"erase", 8},     {"replace", 6},   {"resize", 5},
    {"clear", 2},    {"pop_back", 4}, {"swap", 4},          {"write", 4},        {"erase_value", 3}, {"plus", 3},    {"recreate", 5},
    {"find", 4},     {"rfind", 4},    {"find_first_of", 3}, {"find_last_of", 3}, {"find_first_not_of", 3},
    {"find_last_not_of", 3},          {"compare", 5},       {"affix", 4},        {"substr", 3},    {"copy_out", 2},  {"relational", 4},
    {"misuse", 3},    {"number", 4},
};

template <typename Str, typename View>
struct Args {
    using C = typename Str::value_type;
    Str const* other = nullptr;
    C const* ptr     = nullptr; // counted text (no terminator behind it unless it aliases a string)
    size_t len       = 0;
    C const* cstr    = nullptr; // zero-terminated text without embedded nul
    C ch             = C(0);
    View view{};
    size_t pos = 0, count = 0, pos2 = 0, count2 = 0;
};

// ------------------------------------------------------------------------------------------------ generic mutators
// returns an offset for iterator-returning overloads, -1 otherwise
template <typename T>
inline constexpr bool is_sut_v = false;
template <typename C, size_t N, typename Tr>
inline constexpr bool is_sut_v<etl::basic_inplace_string<C, N, Tr>> = true;

// every string modifier that returns basic_string& returns *this (calls can be chained): checked by address
inline bool g_selfRef = true;
inline int g_predCalls = 0; // state of the counting erase_if predicate (outside the function object: it may be copied)

template <typename S, typename R>
void self_ref(S& s, R&& r)
{
    if constexpr (std::is_same_v<std::remove_cvref_t<R>, S>) {
        if (static_cast<void const*>(&r) != static_cast<void const*>(&s)) {
            g_selfRef = false;
        }
    }
}

template <typename Str, typename View>
auto apply_mut(int kind, int var, Str& s, Args<Str, View> const& A) -> long
{
    using C = typename Str::value_type;
    switch (kind) {
    case K_SET:
        switch (var) {
        case 0: self_ref(s, s = A.cstr); break;
        case 1: self_ref(s, s.assign(A.cstr)); break;
        case 2: self_ref(s, s.assign(A.ptr, A.len)); break;
        case 3: self_ref(s, s.assign(A.count, A.ch)); break;
        case 4: self_ref(s, s.assign(A.ptr, A.ptr + A.len)); break;
        case 5: self_ref(s, s = A.view); break;
        case 6: self_ref(s, s.assign(A.view)); break;
        case 7: self_ref(s, s = A.ch); break;
        default: self_ref(s, s.assign(A.view, A.pos2, A.count2)); break;
        }
        return -1;
    case K_SETFROM:
        switch (var) {
        case 0: self_ref(s, s = *A.other); break;
        case 1: self_ref(s, s.assign(*A.other)); break;
        case 2: self_ref(s, s.assign(*A.other, A.pos2, A.count2)); break;
        default: self_ref(s, s.assign(*A.other, A.pos2)); break;
        }
        return -1;
    case K_APPEND:
        switch (var) {
        case 0: self_ref(s, s.append(A.count, A.ch)); break;
        case 1: self_ref(s, s.append(A.cstr)); break;
        case 2: self_ref(s, s.append(A.ptr, A.len)); break;
        case 3: self_ref(s, s.append(A.view)); break;
        case 4: self_ref(s, s.append(A.view, A.pos2, A.count2)); break;
        case 5: self_ref(s, s += A.ch); break;
        case 6: self_ref(s, s += A.cstr); break;
        case 7: self_ref(s, s += A.view); break;
        case 8: self_ref(s, s.append(A.ptr, A.ptr + A.len)); break;
        case 9: self_ref(s, s.append(*A.other)); break;
        case 10: self_ref(s, s.append(*A.other, A.pos2, A.count2)); break;
        case 11: self_ref(s, s += *A.other); break;
        case 12: s.push_back(A.ch); break;
        case 13: self_ref(s, s.append(A.view, A.pos2)); break;
        case 15: {
            // a genuine single-pass input iterator (copies share one consumable source, like istream_iterator): the
            // range can be traversed once only
            sim::OnePassSource<C> src{A.ptr, A.len, 0};
            self_ref(s, s.append(sim::OnePassIt<C>{&src}, sim::OnePassIt<C>{}));
            break;
        }
        default: self_ref(s, s.append(*A.other, A.pos2)); break;
        }
        return -1;
    case K_INSERT:
        switch (var) {
        case 0: self_ref(s, s.insert(A.pos, A.count, A.ch)); break;
        case 1: self_ref(s, s.insert(A.pos, A.cstr)); break;
        case 2: self_ref(s, s.insert(A.pos, A.ptr, A.len)); break;
        case 3: self_ref(s, s.insert(A.pos, *A.other)); break;
        case 4: self_ref(s, s.insert(A.pos, *A.other, A.pos2, A.count2)); break;
        case 5: self_ref(s, s.insert(A.pos, A.view)); break;
        case 6: self_ref(s, s.insert(A.pos, A.view, A.pos2, A.count2)); break;
        case 7: self_ref(s, s.insert(A.pos, *A.other, A.pos2)); break;
        default: self_ref(s, s.insert(A.pos, A.view, A.pos2)); break;
        }
        return -1;
    case K_ERASE:
        switch (var) {
        case 0: self_ref(s, s.erase()); return -1;
        case 1: self_ref(s, s.erase(A.pos)); return -1;
        case 2: self_ref(s, s.erase(A.pos, A.count)); return -1;
        case 3: return static_cast<long>(s.erase(s.begin() + static_cast<long>(A.pos)) - s.begin());
        default:
            return static_cast<long>(
                s.erase(s.begin() + static_cast<long>(A.pos), s.begin() + static_cast<long>(A.pos + A.count)) - s.begin()
            );
        }
    case K_REPLACE: {
        auto f = s.begin() + static_cast<long>(A.pos);
        auto l = s.begin() + static_cast<long>(A.pos + A.count);
        switch (var) {
        case 0: self_ref(s, s.replace(A.pos, A.count, *A.other)); break;
        case 1: self_ref(s, s.replace(f, l, *A.other)); break;
        case 2: self_ref(s, s.replace(A.pos, A.count, *A.other, A.pos2, A.count2)); break;
        case 3: self_ref(s, s.replace(A.pos, A.count, A.ptr, A.len)); break;
        case 4: self_ref(s, s.replace(f, l, A.ptr, A.len)); break;
        case 5: self_ref(s, s.replace(A.pos, A.count, A.cstr)); break;
        case 6: self_ref(s, s.replace(f, l, A.cstr)); break;
        case 7: self_ref(s, s.replace(f, l, A.count2, A.ch)); break;
        default: self_ref(s, s.replace(A.pos, A.count, *A.other, A.pos2)); break;
        }
        return -1;
    }
    case K_RESIZE:
        if (var == 0) {
            s.resize(A.count);
        } else {
            s.resize(A.count, A.ch);
        }
        return -1;
    case K_CLEAR: s.clear(); return -1;
    case K_POP: s.pop_back(); return -1;
    case K_WRITE:
        switch (var) {
        case 0: s[A.pos] = A.ch; break;
        case 1: s.front() = A.ch; break;
        case 2: s.back() = A.ch; break;
        case 3: *(s.begin() + static_cast<long>(A.pos)) = A.ch; break;
        default: *(s.rbegin() + static_cast<long>(A.pos)) = A.ch; break;
        }
        return -1;
    case K_ERASEVAL:
        if (var == 0) {
            return static_cast<long>(erase(s, A.ch));
        }
        if (var == 3) {
            // a value of another type that is not representable as a character: it is compared with every character as
            // it is (std::erase), never narrowed to the character type first - nothing may be removed
            if constexpr (sizeof(C) == 1) {
                return static_cast<long>(erase(s, static_cast<int>(static_cast<unsigned char>(A.ch)) + 0x100));
            } else {
                return static_cast<long>(erase(s, static_cast<long long>(A.ch) + (1LL << 40)));
            }
        }
        if (var == 2) {
            // a predicate with (external) state: it accepts every second match, so each character has to be shown to it
            // exactly once and in order
            g_predCalls = 0;
            return static_cast<long>(erase_if(s, [c = A.ch](auto x) {
                if (x >= c) {
                    return ++g_predCalls % 2 == 1;
                }
                return false;
            }));
        }
        return static_cast<long>(erase_if(s, [c = A.ch](auto x) { return x >= c; }));
    case K_PLUS:
        switch (var) {
        case 0: s = s + *A.other; break;
        case 1: s = s + A.cstr; break;
        case 2: s = s + A.ch; break;
        case 3: s = A.cstr + s; break;
        default: s = A.ch + s; break;
        }
        return -1;
    default: return -1;
    }
}

constexpr int kMutVariants[] = {9, 4, 16, 9, 5, 9, 2, 1, 1, 2, 5, 4, 5};

// ------------------------------------------------------------------------------------------------ generic observers
#define SIM_SEARCH(fn)                                                                                                 \
    switch (var) {                                                                                                     \
    case 0: return static_cast<long long>(s.fn(*A.other, A.pos));                                                      \
    case 1: return static_cast<long long>(s.fn(*A.other));                                                             \
    case 2: return static_cast<long long>(s.fn(A.ptr, A.pos, A.len));                                                  \
    case 3: return static_cast<long long>(s.fn(A.cstr, A.pos));                                                        \
    case 4: return static_cast<long long>(s.fn(A.cstr));                                                               \
    case 5: return static_cast<long long>(s.fn(A.ch, A.pos));                                                          \
    default: return static_cast<long long>(s.fn(A.ch));                                                                \
    }

#define SIM_SEARCH_NO2(fn)                                                                                             \
    switch (var) {                                                                                                     \
    case 0: return static_cast<long long>(s.fn(*A.other, A.pos));                                                      \
    case 1: return static_cast<long long>(s.fn(*A.other));                                                             \
    case 3: return static_cast<long long>(s.fn(A.cstr, A.pos));                                                        \
    case 4: return static_cast<long long>(s.fn(A.cstr));                                                               \
    case 5: return static_cast<long long>(s.fn(A.ch, A.pos));                                                          \
    default: return static_cast<long long>(s.fn(A.ch));                                                                \
    }

inline auto sgn(int x) -> long long { return x < 0 ? -1 : (x > 0 ? 1 : 0); }

template <typename Str, typename View>
auto apply_obs(int kind, int var, Str const& s, Args<Str, View> const& A) -> long long
{
    switch (kind) {
    case K_FIND: SIM_SEARCH(find)
    case K_RFIND: SIM_SEARCH(rfind)
    case K_FFO:
        if (var == 7) {
            return static_cast<long long>(s.find_first_of(A.view, A.pos));
        }
        if (var == 8) {
            return static_cast<long long>(s.find_first_of(A.view));
        }
        SIM_SEARCH(find_first_of)
    case K_FLO: SIM_SEARCH(find_last_of)
    case K_FFNO: SIM_SEARCH(find_first_not_of)
    case K_FLNO: SIM_SEARCH(find_last_not_of)
    case K_COMPARE:
        switch (var) {
        case 0: return sgn(s.compare(*A.other));
        case 1: return sgn(s.compare(A.pos, A.count, *A.other));
        case 2: return sgn(s.compare(A.pos, A.count, *A.other, A.pos2, A.count2));
        case 3: return sgn(s.compare(A.cstr));
        case 4: return sgn(s.compare(A.pos, A.count, A.cstr));
        case 5: return sgn(s.compare(A.pos, A.count, A.ptr, A.len));
        case 6: return sgn(s.compare(A.view));
        case 7: return sgn(s.compare(A.pos, A.count, A.view));
        case 8: return sgn(s.compare(A.pos, A.count, A.view, A.pos2, A.count2));
        case 9: return sgn(s.compare(A.pos, A.count, *A.other, A.pos2));
        default: return sgn(s.compare(A.pos, A.count, A.view, A.pos2));
        }
    case K_AFFIX:
        switch (var) {
        case 0: return s.starts_with(A.view);
        case 1: return s.starts_with(A.ch);
        case 2: return s.starts_with(A.cstr);
        case 3: return s.ends_with(A.view);
        case 4: return s.ends_with(A.ch);
        default: return s.ends_with(A.cstr);
        }
    case K_REL:
        switch (var) {
        case 0: return s == *A.other;
        case 1: return s != *A.other;
        case 2: return s < *A.other;
        case 3: return s <= *A.other;
        case 4: return s > *A.other;
        case 5: return s >= *A.other;
        case 6: return s == A.cstr;
        case 7: return s != A.cstr;
        case 8: return s < A.cstr;
        case 9: return s <= A.cstr;
        case 10: return s > A.cstr;
        case 11: return s >= A.cstr;
        case 12: return A.cstr == s;
        case 13: return A.cstr != s;
        case 14: return A.cstr < s;
        case 15: return A.cstr <= s;
        case 16: return A.cstr > s;
        default: return A.cstr >= s;
        }
    default: return 0;
    }
}

// ================================================================================================ driver
// character traits whose eq()/lt() fold ASCII case: every search, comparison and affix test of the string must go through
// the Traits parameter exactly as std::basic_string<char, Traits> does (find("AB") matches "ab", compare orders 'B' < 'c')
inline constexpr auto fold_char(char c) noexcept -> char { return (c >= 'A' && c <= 'Z') ? static_cast<char>(c - 'A' + 'a') : c; }

template <typename Base>
struct FoldTraitsOf : Base {
    static constexpr auto eq(char a, char b) noexcept -> bool { return fold_char(a) == fold_char(b); }
    static constexpr auto lt(char a, char b) noexcept -> bool { return fold_char(a) < fold_char(b); }
    static constexpr auto compare(char const* a, char const* b, size_t n) noexcept -> int
    {
        for (size_t i = 0; i < n; ++i) {
            if (lt(a[i], b[i])) {
                return -1;
            }
            if (lt(b[i], a[i])) {
                return 1;
            }
        }
        return 0;
    }
    static constexpr auto find(char const* s, size_t n, char const& c) noexcept -> char const*
    {
        for (size_t i = 0; i < n; ++i) {
            if (eq(s[i], c)) {
                return s + i;
            }
        }
        return nullptr;
    }
};
using EtlFold = FoldTraitsOf<etl::char_traits<char>>;
using StdFold = FoldTraitsOf<std::char_traits<char>>;

template <typename Char, size_t N, typename STr = etl::char_traits<Char>, typename MTr = std::char_traits<Char>>
struct StrDriver {
    static constexpr bool folding = !std::is_same_v<MTr, std::char_traits<Char>>;
    using S  = etl::basic_inplace_string<Char, N, STr>;
    using M  = std::basic_string<Char, MTr>;
    using SV = etl::basic_string_view<Char, STr>;
    using MV = std::basic_string_view<Char, MTr>;
    using SA = Args<S, SV>;
    using MA = Args<M, MV>;
    static constexpr bool checks = SIM_CHECKS != 0;
    // a second capacity for mixed-capacity comparison / concatenation
    static constexpr size_t N2 = N < 16 ? 20 : 9;
    using S2 = etl::basic_inplace_string<Char, N2, STr>;

    Plan const& plan;
    Ctx& ctx;
    int pool;
    S* obj[3] = {nullptr, nullptr, nullptr};
    M model[3];
    bool misuse;
    char const* answerProp = nullptr; // see DriverBase::answerProp

    StrDriver(Plan const& p, Ctx& c)
        : plan(p)
        , ctx(c)
        , pool(p.cfg.pool < 1 ? 1 : (p.cfg.pool > 3 ? 3 : p.cfg.pool))
        , misuse(checks && p.property != "C02")
    {
    }

    // The alphabet: not only letters. For one-byte characters it contains values with the top bit set (a signed
    // comparison orders them before 'a'), for wider characters code units whose byte-wise order (memcmp) contradicts their
    // numeric order (0x0100 vs 0x00FF on a little-endian machine).
    static auto code(int64_t i) -> Char
    {
        if constexpr (folding) {
            // both cases of few letters, so that most matches exist only through the traits
            constexpr unsigned char table[8] = {'a', 'B', 'A', 'b', 'c', 'C', 0xC1, 'd'};
            return static_cast<Char>(table[static_cast<uint64_t>(i) % 8]);
        } else if constexpr (sizeof(Char) == 1) {
            constexpr unsigned char table[8] = {'a', 'b', 0x80, 'c', 0xFF, 'd', 0x7F, 'e'};
            return static_cast<Char>(table[static_cast<uint64_t>(i) % 8]);
        } else {
            constexpr unsigned table[8] = {'a', 0x00FF, 0x0100, 'b', 0x01FE, 0x7F01, 'c', 0x0201};
            return static_cast<Char>(table[static_cast<uint64_t>(i) % 8]);
        }
    }

    auto chr(int64_t v) const -> Char
    {
        int64_t const x = v % 8;
        return x == 7 ? Char(0) : code(x % plan.cfg.alpha);
    }

    auto chr_nonul(int64_t v) const -> Char { return code((v % 8) % plan.cfg.alpha); }

    // text of `len` characters derived from the step's values
    auto text(Step const& st, size_t len, bool allowNul, unsigned salt = 0) const -> M
    {
        M t;
        for (size_t i = 0; i < len; ++i) {
            int64_t const v = st.v[(i + salt) % 4] + static_cast<int64_t>((i + salt) / 4);
            t.push_back(allowNul ? chr(v) : chr_nonul(v));
        }
        return t;
    }

    // ---------------------------------------------------------------- creation
    auto raw(int s) -> void* { return arena_prepare(s, sizeof(S), plan.cfg, static_cast<uint64_t>(ctx.step + 1), alignof(S)); }

    void create_default(int s)
    {
        bool const defaultInit = ((plan.cfg.create >> s) & 1U) != 0;
        void* mem              = raw(s);
        guarded(true, [&] {
            if (defaultInit) {
                obj[s] = new (mem) S;
            } else {
                obj[s] = new (mem) S{};
            }
        });
        if (defaultInit) {
            SIM_COUNT("F3.default_init_in_dirty_memory");
        } else {
            SIM_COUNT("F3.value_init_in_dirty_memory");
        }
        model[s].clear();
    }

    void destroy(int s)
    {
        if (obj[s] == nullptr) {
            return;
        }
        obj[s]->~S();
        if (!arena_guards_ok(s)) {
            ctx.violation("C02", "memory:guard-damaged", "guard bytes around the string object were overwritten");
        }
        arena_retire(s);
        obj[s] = nullptr;
    }

    // ---------------------------------------------------------------- invariants and observation
    auto sane(int s) -> bool { return obj[s]->size() <= N; }

    void resync(int s)
    {
        if (obj[s] == nullptr) {
            return;
        }
        if (!sane(s)) {
            ctx.stop = true;
            return;
        }
        model[s].assign(obj[s]->data(), obj[s]->size());
    }

    auto check_state(int s, char const* prop, char const* prefix) -> bool
    {
        S& v          = *obj[s];
        M const& m    = model[s];
        bool mismatch = false;
        auto bad      = [&](char const* what, long long got, long long want) {
            mismatch = true;
            ctx.violation(
                prop,
                std::string(prefix) + ":" + what,
                std::string(what) + " got " + std::to_string(got) + " want " + std::to_string(want) + " (slot " + std::to_string(s) + ")"
            );
        };
        auto out = guarded(false, [&] {
            S const& cv = v;
            if (cv.size() > N) {
                bad("size>capacity", static_cast<long long>(cv.size()), static_cast<long long>(N));
                ctx.stop = true;
                return;
            }
            if (cv.data()[cv.size()] != Char(0)) {
                bad("terminator", static_cast<long long>(cv.data()[cv.size()]), 0);
            }
            if (cv.capacity() != N || cv.max_size() != N) {
                bad("capacity", static_cast<long long>(cv.capacity()), static_cast<long long>(N));
            }
            if (cv.size() != m.size() || cv.length() != m.size()) {
                bad("size", static_cast<long long>(cv.size()), static_cast<long long>(m.size()));
                return;
            }
            if (cv.empty() != m.empty()) {
                bad("empty", cv.empty(), m.empty());
            }
            if (cv.full() != (m.size() == N)) {
                bad("full", cv.full(), m.size() == N);
            }
            if (cv.c_str() != cv.data() || v.data() != cv.data() || cv.begin() != cv.data() || v.begin() != cv.data()
                || cv.cbegin() != cv.data()) {
                bad("data/c_str/begin", 0, 1);
            }
            if (cv.end() - cv.begin() != static_cast<long>(m.size()) || v.end() - v.begin() != static_cast<long>(m.size())
                || cv.cend() != cv.end()) {
                bad("iterator-distance", cv.end() - cv.begin(), static_cast<long long>(m.size()));
                return;
            }
            for (size_t i = 0; i < m.size(); ++i) {
                if (cv.data()[i] != m[i]) {
                    bad("content", static_cast<long long>(cv.data()[i]), static_cast<long long>(m[i]));
                    return;
                }
                if (cv[i] != m[i] || v[i] != m[i]) {
                    bad("operator[]", static_cast<long long>(cv[i]), static_cast<long long>(m[i]));
                    return;
                }
            }
            if (cv[m.size()] != Char(0)) {
                bad("operator[size()]", static_cast<long long>(cv[m.size()]), 0);
            }
            size_t i = m.size();
            for (auto it = cv.rbegin(); it != cv.rend(); ++it) {
                if (i == 0 || *it != m[--i]) {
                    bad("reverse-iteration", 0, 1);
                    return;
                }
            }
            if (i != 0 || cv.crbegin() != cv.rbegin() || cv.crend() != cv.rend()) {
                bad("reverse-distance", static_cast<long long>(i), 0);
            }
            if (!m.empty()) {
                if (cv.front() != m.front() || cv.back() != m.back() || v.front() != m.front() || v.back() != m.back()) {
                    bad("front/back", static_cast<long long>(cv.front()), static_cast<long long>(m.front()));
                }
            }
            SV const asView = cv; // conversion operator
            if (asView.data() != cv.data() || asView.size() != m.size()) {
                bad("view-conversion", static_cast<long long>(asView.size()), static_cast<long long>(m.size()));
            }
        });
        if (out == Outcome::trapped) {
            ctx.violation("C05", "contract:spurious", "handler entered while observing a valid string at " + trap_site());
            ctx.stop = true;
        }
        return !mismatch;
    }

    void observe_all()
    {
        uint64_t sh = hstr(plan.scenario.c_str());
        for (int s = 0; s < pool && !ctx.stop; ++s) {
            if (obj[s] == nullptr) {
                continue;
            }
            if (!check_state(s, "C04", "diff")) {
                if (ctx.stop) {
                    break;
                }
                resync(s);
            }
            if (!arena_guards_ok(s)) {
                ctx.violation("C02", "memory:guard-damaged", "guard bytes around the string object were overwritten");
                arena_guards_repair(s);
            }
            uint64_t eh = obj[s]->size();
            for (size_t i = 0; i < obj[s]->size(); ++i) {
                eh = mix64(eh ^ static_cast<uint64_t>(obj[s]->data()[i]));
            }
            ctx.log.s(" |");
            ctx.log.u(obj[s]->size());
            ctx.log.feed(eh);
            if (ctx.log.text) {
                ctx.log.out += " \"";
                for (size_t i = 0; i < obj[s]->size() && i < 24; ++i) {
                    auto c = static_cast<unsigned long>(obj[s]->data()[i]);
                    ctx.log.out += (c >= 32 && c < 127) ? std::string(1, static_cast<char>(c)) : std::string("\\0");
                }
                ctx.log.out += obj[s]->size() > 24 ? "...\"" : "\"";
            }
            sh = mix64(sh ^ eh ^ (static_cast<uint64_t>(s) << 56));
        }
        if (g_counting) {
            states().insert(sh);
            transitions().insert(mix64(sh ^ hstr(ctx.op)));
        }
    }

    // ---------------------------------------------------------------- call plumbing
    template <typename F>
    auto call(int s, bool expectTrap, bool late, F&& f) -> bool
    {
        if (expectTrap) {
            ctx.stepClass     = 2;
            g_crash.stepClass = 2;
        }
        auto out = guarded(true, static_cast<F&&>(f));
        if (expectTrap && !arena_guards_ok(s)) {
            ctx.violation("C05", "contract:damage-before-handler:guard", "memory outside the string was written by a precondition-violating call");
            arena_guards_repair(s);
        }
        ctx.stepClass     = 0;
        g_crash.stepClass = 0;
        if (out == Outcome::alloc_tripped) {
            resync(s);
            return false;
        }
        if (out == Outcome::trapped) {
            if (expectTrap) {
                ++ctx.faultsFired;
                ++ctx.boundaryEvents;
                SIM_COUNT("F2.trapped_by_handler");
                count_dyn("guard." + trap_site());
                ctx.log.s(" ->trap");
                if (!trap_location_ok()) {
                    ctx.violation("C05", "contract:no-location", "handler entered without a usable file/line");
                }
                if (late) {
                    // containment only: the string may have been modified but must stay valid
                    if (sane(s) && obj[s]->data()[obj[s]->size()] != Char(0)) {
                        ctx.violation("C04", "invariant:terminator-after-trap", "string not terminated after a trapped overflow");
                    }
                    resync(s);
                } else if (!check_state(s, "C05", "contract:modified-before-handler")) {
                    resync(s);
                }
            } else {
                ctx.violation("C05", "contract:spurious", "handler entered on a valid call at " + trap_site());
                if (answerProp != nullptr) {
                    ctx.violation(answerProp, "refusal:trapped-instead", "a call with a documented answer at capacity entered the handler at " + trap_site());
                }
                ctx.log.s(" ->spurious-trap");
                resync(s);
            }
            return false;
        }
        if (expectTrap) {
            ctx.violation("C05", "contract:not-entered", "precondition violated but the handler was not entered");
            ctx.log.s(" ->no-trap");
            resync(s);
            return false;
        }
        return true;
    }

    void begin_op(char const* name, int a, int var)
    {
        ctx.op           = name;
        this->answerProp = nullptr;
        crash_set_op(name);
        ctx.log.s(name);
        ctx.log.kv("a", a);
        ctx.log.kv("var", var);
    }

    void skip()
    {
        ctx.log.s(" skip");
        SIM_COUNT("steps.skipped");
    }

    void changed(size_t before, size_t after)
    {
        ++ctx.stateChanging;
        if ((after == N && before != N) || (after == 0 && before != 0)) {
            ++ctx.boundaryEvents;
        }
        if (N >= 255 && ((before <= 255 && after >= 256) || (before >= 255 && after <= 254))) {
            SIM_COUNT("reach.size_type_boundary_255_256_crossed");
        }
        if ((before < 16) != (after < 16)) {
            SIM_COUNT("reach.length_16_crossed");
        }
    }

    // position argument for searches: boundary classes first
    static auto pick_pos(uint64_t k, size_t size) -> size_t
    {
        switch (k % 8) {
        case 0: return 0;
        case 1: return 1;
        case 2: return size == 0 ? 0 : size - 1;
        case 3: return size;
        case 4: return size + 1;
        case 5: return npos;
        default: return static_cast<size_t>((k / 8) % (size + 2));
        }
    }

    static auto pick_count(uint64_t k, size_t limit) -> size_t
    {
        switch (k % 6) {
        case 0: return npos;
        case 1: return 0;
        case 2: return limit;
        case 3: return limit + 1;
        default: return static_cast<size_t>((k / 6) % (limit + 2));
        }
    }

    // argument bundle shared by SUT and model: same characters, separate storage
    struct Bundle {
        M txt;           // counted text
        M ztxt;          // zero-terminated text (no embedded nul)
        ExactBuf<Char> p; // exact-size copy of txt for the SUT
        ExactBuf<Char> z; // exact-size copy of ztxt + terminator for the SUT
        SA sa;
        MA ma;

        Bundle(M t, M zt)
            : txt(std::move(t))
            , ztxt(std::move(zt))
            , p(txt.size())
            , z(ztxt.size() + 1)
        {
            for (size_t i = 0; i < txt.size(); ++i) {
                p.p[i] = txt[i];
            }
            for (size_t i = 0; i < ztxt.size(); ++i) {
                z.p[i] = ztxt[i];
            }
            z.p[ztxt.size()] = Char(0);
            sa.ptr  = p.p;
            sa.len  = txt.size();
            sa.cstr = z.p;
            sa.view = SV(p.p, txt.size());
            ma.ptr  = txt.data();
            ma.len  = txt.size();
            ma.cstr = ztxt.c_str();
            ma.view = MV(txt.data(), txt.size());
        }

        void set_common(Char ch, size_t pos, size_t count, size_t pos2, size_t count2)
        {
            sa.ch = ma.ch = ch;
            sa.pos = ma.pos = pos;
            sa.count = ma.count = count;
            sa.pos2 = ma.pos2 = pos2;
            sa.count2 = ma.count2 = count2;
        }
    };

    // ================================================================ steps
    void step(Step const& st)
    {
        int const a  = static_cast<int>(st.a % static_cast<uint32_t>(pool));
        int const b  = static_cast<int>(st.b % static_cast<uint32_t>(pool));
        int const kind = st.op;
        S& v         = *obj[a];
        M& m         = model[a];
        size_t const sz   = m.size();
        size_t const room = N - sz;
        bool const flt    = st.flt != 0;
        count_dyn(std::string("op.") + kOps[static_cast<size_t>(kind)].name + ".len" + (sz == 0 ? "0" : (sz == N ? "full" : (sz < 16 ? "<16" : ">=16"))));

        if (kind == K_SWAP) {
            int const var = static_cast<int>(st.k[2] % 2);
            begin_op("swap", a, var);
            ctx.log.kv("b", b);
            if (obj[b] == nullptr) {
                skip();
                return;
            }
            if (a == b) {
                SIM_COUNT("F6.self_swap");
            }
            bool ok = call(a, false, false, [&] {
                if (var == 0) {
                    v.swap(*obj[b]);
                } else {
                    using etl::swap;
                    swap(v, *obj[b]);
                }
            });
            if (ok) {
                if (a != b) {
                    std::swap(model[a], model[b]);
                    changed(sz, model[a].size());
                    ++ctx.boundaryEvents; // cross-object step
                    if (sz == N || model[a].size() == N) {
                        SIM_COUNT("reach.swap_with_full_string");
                    }
                }
            } else {
                resync(b);
            }
            return;
        }
        if (kind <= K_PLUS) {
            int var = static_cast<int>(st.k[2] % static_cast<uint64_t>(kMutVariants[kind]));

            begin_op(kOps[static_cast<size_t>(kind)].name, a, var);
            step_mutate(st, kind, var, a, b, v, m, sz, room, flt);
            return;
        }
        if (kind == K_RECREATE) {
            begin_op("recreate", a, static_cast<int>(st.k[2] % 11));
            step_recreate(st, a, b);
            return;
        }
        if (kind == K_MISUSE) {
            begin_op("misuse", a, static_cast<int>(st.k[2] % 12));
            step_misuse(st, a);
            return;
        }
        if (kind == K_NUMBER) {
            begin_op("number", a, static_cast<int>(st.k[2] % 3));
            if constexpr (etl::is_same_v<Char, char> && !folding) {
                step_number(st, a);
            } else {
                skip();
            }
            return;
        }
        step_observe(st, kind, a, b);
    }

    void step_mutate(Step const& st, int kind, int var, int a, int b, S& v, M& m, size_t sz, size_t room, bool flt)
    {
        // ---- choose arguments
        size_t len  = 0; // length of the text argument
        size_t pos  = 0;
        size_t cnt  = 0;
        size_t pos2 = 0;
        size_t cnt2 = 0;
        bool overflow = false; // the fault: ask for more than fits
        bool usesOther = false;
        M const& mo   = model[b];
        switch (kind) {
        case K_SET:
            len = static_cast<size_t>(st.k[0] % (N + 1));
            if (flt && (var <= 6 || var == 8)) {
                overflow = true;
                len      = N + (st.flt == 1 ? 1 : 2);
                if (st.flt == 3 && var == 3) {
                    len = npos;
                }
            }
            cnt  = len;
            pos2 = 0;
            cnt2 = npos;
            if (var == 8) {
                // assign(view, pos2, count2) with a longer view
                pos2 = static_cast<size_t>(st.k[1] % 3);
                cnt2 = len;
                len  = len == npos ? len : len + pos2 + static_cast<size_t>(st.k[1] % 2);
            }
            break;
        case K_SETFROM:
            usesOther = true;
            pos2 = static_cast<size_t>(st.k[0] % (mo.size() + 1));
            cnt2 = pick_count(st.k[1], mo.size() - pos2);
            break;
        case K_APPEND:
            len = static_cast<size_t>(st.k[0] % (room + 1));
            if (var == 5 || var == 12) {
                len = 1;
            }
            if (flt) {
                overflow = true;
                len      = room + (st.flt == 1 ? 1 : (st.flt == 2 ? 2 : 5));
                if (st.flt == 3 && var == 0) {
                    len = npos;
                }
                if (var == 5 || var == 12) {
                    len = 1;
                    overflow = room == 0;
                }
            }
            cnt  = len;
            pos2 = 0;
            cnt2 = npos;
            if (var == 4 || var == 13) {
                pos2 = static_cast<size_t>(st.k[1] % 3);
                cnt2 = len;
                len  = len == npos ? len : len + pos2 + (var == 13 ? 0 : static_cast<size_t>(st.k[1] % 2));
            }
            if (var == 9 || var == 10 || var == 11 || var == 14) {
                usesOther = true;
                pos2      = var == 9 || var == 11 ? 0 : static_cast<size_t>(st.k[0] % (mo.size() + 1));
                cnt2      = var == 10 ? pick_count(st.k[1], mo.size() - pos2) : npos;
                size_t const take = std::min(cnt2, mo.size() - pos2);
                overflow  = take > room;
            }
            break;
        case K_INSERT:
            pos = static_cast<size_t>(st.k[0] % (sz + 1));
            len = static_cast<size_t>(st.k[1] % (room + 1));
            if (flt) {
                len = room + 1 + static_cast<size_t>(st.k[1] % 8); // does not fit: contained-overflow clause
            }
            cnt = len;
            cnt2 = npos;
            if (var == 4 || var == 6 || var == 7 || var == 8) {
                pos2 = static_cast<size_t>(st.v[3] % 3);
            }
            if (var == 3 || var == 4 || var == 7) {
                usesOther = true;
                pos2      = var == 3 ? 0 : static_cast<size_t>(st.k[1] % (mo.size() + 1));
                cnt2      = var == 4 ? pick_count(st.k[1] / 7, mo.size() - pos2) : npos;
            } else if (var == 6) {
                cnt2 = len;
                len += pos2 + static_cast<size_t>(st.k[1] % 2);
            } else if (var == 8) {
                len += pos2;
            }
            break;
        case K_ERASE:
            pos = static_cast<size_t>(st.k[0] % (sz + 1));
            cnt = pick_count(st.k[1], sz - pos);
            if (var == 3) {
                if (sz == 0) {
                    skip();
                    return;
                }
                pos = static_cast<size_t>(st.k[0] % sz);
            }
            if (var == 4) {
                cnt = static_cast<size_t>(st.k[1] % (sz - pos + 1));
            }
            break;
        case K_REPLACE:
            pos = static_cast<size_t>(st.k[0] % (sz + 1));
            cnt = (var == 1 || var == 4 || var == 6 || var == 7) ? static_cast<size_t>(st.k[1] % (sz - pos + 1))
                                                                  : pick_count(st.k[1], sz - pos);
            len  = static_cast<size_t>((st.k[1] / 11) % 6);
            cnt2 = var == 7 ? len : npos;
            if (var == 0 || var == 1 || var == 2 || var == 8) {
                usesOther = true;
                pos2      = var == 0 || var == 1 ? 0 : static_cast<size_t>(st.v[3] % (mo.size() + 1));
                cnt2      = var == 2 ? pick_count(st.k[1] / 5, mo.size() - pos2) : npos;
            }
            break;
        case K_RESIZE:
            cnt = static_cast<size_t>(st.k[0] % (N + 1));
            if (flt) {
                cnt = N + 1 + static_cast<size_t>(st.k[0] % 4);
                len = cnt; // marks the step as an overflow candidate (len is otherwise unused by resize)
            }
            break;
        case K_POP:
            if (sz == 0 && !(flt && misuse)) {
                skip();
                return;
            }
            overflow = sz == 0;
            break;
        case K_WRITE:
            if (sz == 0) {
                skip();
                return;
            }
            pos = static_cast<size_t>(st.k[0] % sz);
            break;
        case K_PLUS:
            len = static_cast<size_t>(st.k[0] % (room + 1));
            if (flt) {
                len = room + 1 + static_cast<size_t>(st.k[0] % 4);
            }
            if (var == 2 || var == 4) {
                len = 1;
            }
            if (var == 0) {
                usesOther = true;
            }
            break;
        default: break;
        }
        if (usesOther && obj[b] == nullptr) {
            skip();
            return;
        }
        if (len != npos && len > 4096) {
            skip();
            return;
        }
        bool const needsNoNul = true;
        (void)needsNoNul;
        Bundle B(text(st, len == npos ? 0 : len, true), text(st, len == npos ? 0 : len, false));
        B.set_common(chr_nonul(st.v[0]), pos, cnt, pos2, cnt2);
        if (kind == K_WRITE || kind == K_RESIZE || kind == K_ERASEVAL) {
            B.sa.ch = B.ma.ch = chr_nonul(st.v[0]);
        }
        ctx.log.kv("len", static_cast<long long>(len));
        ctx.log.kv("pos", static_cast<long long>(pos));
        ctx.log.kv("cnt", static_cast<long long>(cnt));
        ctx.log.kv("pos2", static_cast<long long>(pos2));
        ctx.log.kv("cnt2", static_cast<long long>(cnt2));
        ctx.log.kv("b", usesOther ? b : -1);
        for (size_t i = 0; i < B.txt.size() && i < 6; ++i) {
            ctx.log.i(static_cast<long long>(B.txt[i]));
        }

        // ---- F6: the text argument aliases the string's own storage: as (pointer, length) or an iterator range, as a
        // zero-terminated tail (s.c_str() + k) or as a view into the string itself
        enum { AL_NONE, AL_PTR, AL_CSTR, AL_VIEW };
        int aliasKind = AL_NONE;
        if (!overflow && len != npos && st.k[1] % 5 == 4 && sz > 0) {
            if (kind == K_SET) {
                aliasKind = (var == 2 || var == 4) ? AL_PTR : (var == 0 || var == 1) ? AL_CSTR : (var == 5 || var == 6) ? AL_VIEW : AL_NONE;
            } else if (kind == K_APPEND) {
                aliasKind = (var == 2 || var == 8) ? AL_PTR : (var == 1 || var == 6) ? AL_CSTR : (var == 3 || var == 7) ? AL_VIEW : AL_NONE;
            } else if (kind == K_INSERT) {
                aliasKind = var == 2 ? AL_PTR : (var == 1 && room > 0) ? AL_CSTR : var == 5 ? AL_VIEW : AL_NONE;
            }
        }
        bool const aliasOwn = aliasKind != AL_NONE;
        size_t aliasOff = 0;
        size_t aliasLen = 0;
        if (aliasOwn) {
            aliasOff = static_cast<size_t>(st.v[1]) % sz;
            aliasLen = std::min(sz - aliasOff, kind == K_SET ? N : room);
            if (aliasKind == AL_CSTR) {
                // the length of a zero-terminated tail is whatever lies before the terminator: for insert keep it within
                // the free room (an insertion that does not fit has no documented answer); append clamps; assign fits
                if (kind == K_INSERT) {
                    aliasOff = sz - 1 - static_cast<size_t>(st.v[1]) % std::min(sz, room);
                }
                aliasLen = sz - aliasOff;
                SIM_COUNT("F6.cstr_argument_aliases_own_storage");
            } else if (aliasKind == AL_VIEW) {
                SIM_COUNT("F6.view_argument_aliases_own_storage");
            } else {
                SIM_COUNT("F6.pointer_argument_aliases_own_storage");
            }
            ctx.log.kv("alias_kind", aliasKind);
            ctx.log.kv("alias_off", static_cast<long long>(aliasOff));
            ctx.log.kv("alias_len", static_cast<long long>(aliasLen));
        }
        if (usesOther && a == b) {
            SIM_COUNT("F6.self_as_argument");
        }

        // ---- the reference: std::basic_string on a trial copy decides validity and the expected result
        M trial         = m;
        B.ma.other      = usesOther ? (a == b ? &trial : &model[b]) : nullptr;
        B.sa.other      = usesOther ? obj[b] : nullptr;
        long wantRet    = -1;
        bool threw      = false;
        if (overflow && (kind == K_SET || kind == K_POP) ) {
            // reference not needed: the call must be refused
        } else {
            if (aliasOwn) {
                B.ma.ptr  = trial.data() + aliasOff;
                B.ma.len  = aliasLen;
                B.ma.cstr = aliasKind == AL_CSTR ? trial.c_str() + aliasOff : B.ma.cstr;
                B.ma.view = aliasKind == AL_VIEW ? MV(trial.data() + aliasOff, aliasLen) : B.ma.view;
            }
            if (len == npos) {
                trial.append(N + 1, B.ma.ch); // stands for "more than fits": only the clamped prefix is compared
            } else {
                try {
                    wantRet = apply_mut(kind, var, trial, B.ma);
                } catch (std::exception const&) {
                    threw = true;
                }
            }
        }
        if (threw) {
            ctx.log.s(" invalid-in-std");
            skip();
            return;
        }
        if (aliasOwn) {
            B.sa.ptr  = v.data() + aliasOff;
            B.sa.len  = aliasLen;
            B.sa.cstr = aliasKind == AL_CSTR ? v.c_str() + aliasOff : B.sa.cstr;
            B.sa.view = aliasKind == AL_VIEW ? SV(v.data() + aliasOff, aliasLen) : B.sa.view;
        }
        bool const tooLong = trial.size() > N;

        // ---- known finding: replace() overwrites in place instead of replacing
        if (kind == K_REPLACE) {
            step_replace(st, var, a, B, trial);
            return;
        }

        // ---- classify
        if (kind == K_SET && overflow) {
            if (!misuse) {
                skip();
                return;
            }
            if (var == 7) {
                skip();
                return;
            }
            call(a, true, false, [&] { apply_mut(kind, var, v, B.sa); });
            return;
        }
        if (kind == K_POP && overflow) {
            call(a, true, false, [&] { v.pop_back(); });
            return;
        }
        if (tooLong) {
            bool const clampFamily = kind == K_APPEND && (var <= 7 || var == 13);
            if (clampFamily) {
                // F1: documented clamp. Everything that fits must be appended, nothing else may change.
                this->answerProp = "C04";
                bool ok = call(a, false, false, [&] { apply_mut(kind, var, v, B.sa); });
                if (ok) {
                    ++ctx.faultsFired;
                    ++ctx.boundaryEvents;
                    SIM_COUNT("F1.append_clamped_to_capacity");
                    ctx.log.s(" ->clamped");
                    m = trial.substr(0, N);
                    changed(sz, N);
                }
                return;
            }
            if (kind == K_APPEND) {
                // push_back based overloads: growing past capacity is a precondition violation, detected late
                if (!misuse && !checks && len != npos) {
                    // the shipped configuration (no contract macros): these overloads append character by character
                    // and stop at the capacity. Whatever they keep, the string must stay inside its storage, with
                    // size() <= capacity() and a terminator (the statement of C04 covers "the appending operations that
                    // clamp to capacity")
                    auto out = guarded(true, [&] { apply_mut(kind, var, v, B.sa); });
                    (void)out;
                    ++ctx.faultsFired;
                    ++ctx.boundaryEvents;
                    SIM_COUNT("F1.unchecked_append_clamped");
                    ctx.log.s(" ->unchecked-clamp");
                    if (!sane(a)) {
                        ctx.violation("C04", "invariant:size-after-overflow", "size() exceeds capacity() after an append that did not fit (contract checks off)");
                        ctx.stop = true;
                        return;
                    }
                    if (v.data()[v.size()] != Char(0)) {
                        ctx.violation("C04", "invariant:terminator-after-overflow", "string not terminated after an append that did not fit (contract checks off)");
                    }
                    if (!arena_guards_ok(a)) {
                        ctx.violation("C02", "memory:guard-damaged", "an append that did not fit wrote outside the string object");
                        arena_guards_repair(a);
                    }
                    resync(a);
                    if (a != b && usesOther) {
                        resync(b);
                    }
                    return;
                }
                if (!misuse) {
                    skip();
                    return;
                }
                bool const late = var != 12;
                call(a, true, late, [&] { apply_mut(kind, var, v, B.sa); });
                if (a != b && usesOther) {
                    resync(b);
                }
                return;
            }
            // every other operation whose std result does not fit: capacity exhaustion (F1) without a documented
            // answer. The library may truncate or trap, the content is unspecified - but the string must stay inside
            // its storage and keep its invariants (checked here and by the guards / sanitizers); then re-synchronise.
            // (cstr + s and ch + s first construct a string from the left operand, which has a documented precondition:
            // those two forms are not part of this clause)
            if (!flt || len == npos || usesOther || (kind == K_PLUS && var >= 3)) {
                ctx.log.s(" does-not-fit");
                skip();
                return;
            }
            auto out = guarded(true, [&] { apply_mut(kind, var, v, B.sa); });
            ++ctx.faultsFired;
            ++ctx.boundaryEvents;
            SIM_COUNT("F1.overflowing_operation_contained");
            ctx.log.s(out == Outcome::trapped ? " ->overflow-trapped" : " ->overflow-truncated");
            if (!sane(a)) {
                ctx.violation("C04", "invariant:size-after-overflow", "size() exceeds capacity() after an operation that did not fit");
                ctx.stop = true;
                return;
            }
            if (v.data()[v.size()] != Char(0)) {
                ctx.violation("C04", "invariant:terminator-after-overflow", "string not terminated after an operation that did not fit");
            }
            if (!arena_guards_ok(a)) {
                ctx.violation("C02", "memory:guard-damaged", "an operation that did not fit wrote outside the string object");
                arena_guards_repair(a);
            }
            resync(a);
            return;
        }

        // ---- valid: execute on the SUT
        long gotRet = -1;
        g_selfRef   = true;
        bool ok     = call(a, false, false, [&] { gotRet = apply_mut(kind, var, v, B.sa); });
        if (!ok) {
            return;
        }
        if (!g_selfRef) {
            ctx.violation("C04", "diff:returned-reference", "a modifier that returns basic_inplace_string& did not return the string itself");
            g_selfRef = true;
        }
        if (gotRet != wantRet) {
            ctx.violation("C04", "diff:returned-value", "returned " + std::to_string(gotRet) + " want " + std::to_string(wantRet));
        }
        if (trial != m) {
            changed(sz, trial.size());
        }
        m = std::move(trial);
    }

    // the overwrite-in-place semantics recorded as known finding KF-C04-replace-overwrites
    static auto replace_defect_model(int var, M const& m, MA const& A) -> M
    {
        M r            = m;
        size_t const sz = m.size();
        size_t const p = std::min(A.pos, sz);
        size_t n1      = std::min(A.count, sz - p);
        M src;
        switch (var) {
        case 0:
        case 1: src = *A.other; break;
        case 2: src = A.other->substr(std::min(A.pos2, A.other->size()), A.count2); break;
        case 8: src = A.other->substr(std::min(A.pos2, A.other->size())); break;
        case 3:
        case 4: src.assign(A.ptr, A.len); break;
        case 5:
        case 6: src = A.cstr; break;
        default: src.assign(A.count2, A.ch); break;
        }
        size_t const n = std::min(n1, src.size());
        for (size_t i = 0; i < n; ++i) {
            r[p + i] = src[i];
        }
        return r;
    }

    void step_replace(Step const& st, int var, int a, Bundle& B, M const& want)
    {
        (void)st;
        M& m = model[a];
        if (want.size() > N) {
            ctx.log.s(" does-not-fit");
            skip();
            return;
        }
        bool const quarantine = kf_open("KF-C04-replace-overwrites");
        if (!quarantine) {
            bool ok = call(a, false, false, [&] { apply_mut(K_REPLACE, var, *obj[a], B.sa); });
            if (ok) {
                if (want != m) {
                    changed(m.size(), want.size());
                }
                m = want;
            }
            return;
        }
        if (B.sa.other == obj[a]) {
            // self-replacement inside the quarantine would alias the scratch copy with the original: not exercised
            skip();
            return;
        }
        // quarantined: run on a scratch copy; the outcome must be the reference or the recorded defect model
        void* mem = arena_prepare(kTemp, sizeof(S), plan.cfg, 777, alignof(S));
        S* tmp    = nullptr;
        guarded(true, [&] { tmp = new (mem) S(*obj[a]); });
        auto out = guarded(true, [&] { apply_mut(K_REPLACE, var, *tmp, B.sa); });
        M got;
        bool const insane = tmp->size() > N;
        if (!insane) {
            got.assign(tmp->data(), tmp->size());
        }
        bool const termOk = !insane && tmp->data()[tmp->size()] == Char(0);
        tmp->~S();
        if (!arena_guards_ok(kTemp)) {
            ctx.violation("C02", "memory:guard-damaged", "replace wrote outside the string object");
        }
        arena_retire(kTemp);
        M const defect = replace_defect_model(var, m, B.ma);
        if (out == Outcome::trapped) {
            ctx.violation("C05", "contract:spurious", "handler entered on a valid replace at " + trap_site());
        } else if (insane || !termOk) {
            ctx.violation("C04", "invariant:after-replace", "size/terminator invariant broken by replace");
        } else if (got == want) {
            SIM_COUNT("kf.replace.matches_reference");
        } else if (got == defect) {
            ctx.kf("KF-C04-replace-overwrites");
            ctx.log.s(" ->known-finding");
        } else {
            ctx.violation("C04", "diff:replace", "replace result matches neither std::basic_string nor the recorded defect model");
        }
        // advance the real object with the reference semantics so that the rest of the history is checked at full strength
        ExactBuf<Char> w(want.size());
        for (size_t i = 0; i < want.size(); ++i) {
            w.p[i] = want[i];
        }
        bool ok = call(a, false, false, [&] { obj[a]->assign(w.p, want.size()); });
        if (ok) {
            if (want != m) {
                changed(m.size(), want.size());
            }
            m = want;
        }
    }

    void step_recreate(Step const& st, int a, int b)
    {
        int form = static_cast<int>(st.k[2] % 11);
        if ((form == 5 || form == 6 || form == 9 || form == 10) && (a == b || obj[b] == nullptr)) {
            form = 0;
        }
        M const mo = model[b];
        size_t len = static_cast<size_t>(st.k[0] % (N + 1));
        bool bad   = false;
        if (st.flt != 0 && misuse && form >= 1 && form <= 4) {
            bad = true;
            len = N + (st.flt == 1 ? 1 : 2);
            if (st.flt == 3 && form == 3) {
                len = npos;
            }
        } else if (st.flt != 0 && !misuse && false) {
            // unreachable
        }
        size_t pos2 = 0;
        size_t cnt2 = npos;
        if (form == 5 || form == 6) {
            pos2 = static_cast<size_t>(st.k[0] % (mo.size() + 1));
            cnt2 = pick_count(st.k[1], mo.size() - pos2);
        }
        if (form == 8) {
            pos2 = static_cast<size_t>(st.k[1] % 3);
            cnt2 = len;
            len += pos2 + static_cast<size_t>(st.k[1] % 2);
        }
        ctx.log.kv("form", form);
        ctx.log.kv("len", static_cast<long long>(len));
        ctx.log.kv("b", b);
        Bundle B(text(st, len == npos ? 0 : len, true), text(st, len == npos ? 0 : len, false));
        Char const ch = chr_nonul(st.v[0]);
        size_t const before = model[a].size();
        destroy(a);
        void* mem = raw(a);
        S* made   = nullptr;
        ctx.stepClass     = bad ? 2 : 0;
        g_crash.stepClass = ctx.stepClass;
        auto out = guarded(true, [&] {
            switch (form) {
            case 1: made = new (mem) S(B.sa.ptr, B.sa.len); break;
            case 2: made = new (mem) S(B.sa.cstr); break;
            case 3: made = new (mem) S(len, ch); break;
            case 4: made = new (mem) S(B.sa.ptr, B.sa.ptr + B.sa.len); break;
            case 5: made = new (mem) S(*obj[b], pos2, cnt2); break;
            case 6: made = new (mem) S(*obj[b], pos2); break;
            case 7: made = new (mem) S(B.sa.view); break;
            case 8: made = new (mem) S(B.sa.view, pos2, cnt2); break;
            case 9: made = new (mem) S(*obj[b]); break;
            case 10: made = new (mem) S(static_cast<S&&>(*obj[b])); break;
            default: made = ((plan.cfg.create >> a) & 1U) != 0 ? new (mem) S : new (mem) S{}; break;
            }
        });
        ctx.stepClass     = 0;
        g_crash.stepClass = 0;
        if (out != Outcome::completed) {
            if (out == Outcome::trapped && bad) {
                ++ctx.faultsFired;
                ++ctx.boundaryEvents;
                SIM_COUNT("F2.trapped_by_handler");
                count_dyn("guard." + trap_site());
                ctx.log.s(" ->trap");
                if (!trap_location_ok()) {
                    ctx.violation("C05", "contract:no-location", "handler entered without a usable file/line");
                }
            } else if (out == Outcome::trapped) {
                ctx.violation("C05", "contract:spurious", "handler entered in a valid constructor at " + trap_site());
            }
            if (!arena_guards_ok(a)) {
                ctx.violation("C05", "contract:damage-before-handler:guard", "constructor wrote outside the object before the handler ran");
            }
            arena_retire(a);
            mem = raw(a);
            guarded(true, [&] { made = new (mem) S{}; });
            obj[a] = made;
            model[a].clear();
            return;
        }
        obj[a] = made;
        if (bad) {
            ctx.violation("C05", "contract:not-entered", "constructor precondition violated but the handler was not entered");
            resync(a);
            return;
        }
        M& m = model[a];
        switch (form) {
        case 1:
        case 4:
        case 7: m = B.txt; break;
        case 2: m = B.ztxt; break;
        case 3: m.assign(len, ch); break;
        case 5: m = M(mo, pos2, cnt2); break;
        case 6: m = M(mo, pos2); break;
        case 8: m = M(MV(B.txt).substr(pos2, cnt2)); break;
        case 9:
        case 10: m = mo; break; // strings are trivially copyable: a moved-from string keeps its value
        default: m.clear(); break;
        }
        changed(before, m.size());
        ++ctx.boundaryEvents;
    }

    // pure misuse steps (no valid counterpart in another op)
    void step_misuse(Step const& st, int a)
    {
        if (st.flt == 0 || !misuse) {
            skip();
            return;
        }
        S& v            = *obj[a];
        size_t const sz = model[a].size();
        int const var   = static_cast<int>(st.k[2] % 18);
        Char sink       = Char(0);
        S const& cv     = v;
        if (var >= 13) {
            // compare with a start position beyond size() - in this string (pos) or in the other one (pos2):
            // std::basic_string throws out_of_range, here the precondition of the underlying substr
            size_t const pos = static_cast<size_t>(beyond(sz + 1, st.flt));
            ExactBuf<Char> txt(2);
            txt.p[0] = Char('x');
            txt.p[1] = Char(0);
            ctx.log.kv("pos", static_cast<long long>(pos));
            int r = 0;
            call(a, true, false, [&] {
                switch (var) {
                case 13: r = cv.compare(pos, 1, cv); break;
                case 14: r = cv.compare(pos, 1, cv, 0, 1); break;
                case 15: r = cv.compare(0, 0, cv, pos, 1); break;
                case 16: r = cv.compare(pos, 1, txt.p); break;
                default: r = cv.compare(pos, 1, txt.p, 1); break;
                }
            });
            (void)r;
            return;
        }
        if (var == 12) {
            // replace(pos, count, str, pos2, count2) with pos2 beyond str.size()
            size_t const pos2 = static_cast<size_t>(beyond(sz + 1, st.flt));
            ctx.log.kv("pos2", static_cast<long long>(pos2));
            call(a, true, false, [&] { v.replace(0, 0, cv, pos2, 1); });
            return;
        }
        if (var >= 8) {
            // replace with a start position beyond size(): std::basic_string throws out_of_range, here a precondition
            size_t const pos = static_cast<size_t>(beyond(sz + 1, st.flt));
            ExactBuf<Char> txt(2);
            txt.p[0] = Char('x');
            txt.p[1] = Char(0);
            ctx.log.kv("pos", static_cast<long long>(pos));
            call(a, true, false, [&] {
                switch (var) {
                case 8: v.replace(pos, 1, cv); break;
                case 9: v.replace(pos, 1, cv, 0, 1); break;
                case 10: v.replace(pos, 1, txt.p, 1); break;
                default: v.replace(pos, 1, txt.p); break;
                }
            });
            return;
        }
        switch (var) {
        case 0: // operator[] beyond the terminator
        case 1: {
            size_t const idx = static_cast<size_t>(beyond(sz + 1, st.flt));
            ctx.log.kv("idx", static_cast<long long>(idx));
            call(a, true, false, [&] { sink = var == 0 ? cv[idx] : v[idx]; });
            break;
        }
        case 2:
        case 3:
        case 4:
        case 5:
            if (sz != 0) {
                skip();
                return;
            }
            call(a, true, false, [&] {
                sink = var == 2 ? cv.front() : (var == 3 ? cv.back() : (var == 4 ? v.front() : v.back()));
            });
            break;
        case 6: { // erase(first, last) with last beyond end()
            if (sz + 1 > N) {
                skip(); // end()+1 would leave the buffer: not formed
                return;
            }
            call(a, true, false, [&] { v.erase(v.cbegin(), v.cend() + 1); });
            break;
        }
        default: { // push_back on a full string
            if (sz != N) {
                skip();
                return;
            }
            call(a, true, false, [&] { v.push_back(Char('z')); });
            break;
        }
        }
        (void)sink;
    }

    // integer formatting inside a string history: to_string<N>, from_integer and to_chars into exact-size heap buffers
    // of every length around the number of digits (too small is a refusal: an error result and nothing written outside)
    void step_number(Step const& st, int a)
    {
        if constexpr (etl::is_same_v<Char, char>) {
            S& v          = *obj[a];
            M& m          = model[a];
            int const var = static_cast<int>(st.k[2] % 3);
            long long val = 0;
            switch (st.k[1] % 8) {
            case 0: val = static_cast<long long>(st.k[0] % 10); break;
            case 1: val = -static_cast<long long>(st.k[0] % 1000); break;
            case 2: {
                long long p10 = 1;
                for (uint64_t i = 0; i < st.k[0] % 10; ++i) {
                    p10 *= 10;
                }
                val = p10 - static_cast<long long>(st.v[0] % 2);
                break;
            }
            case 3: val = 2147483647LL; break;
            case 4: val = -2147483647LL - 1; break;
            case 5: val = 0; break;
            default: val = static_cast<long long>(st.k[0] % 100000) - 50000; break;
            }
            int const ival = static_cast<int>(val);
            char ref[32];
            int const digits = std::snprintf(ref, sizeof(ref), "%d", ival);
            size_t const d   = static_cast<size_t>(digits);
            ctx.log.kv("val", ival);
            if (var == 0) {
                // to_string<N>: needs room for the digits and a terminator in its internal buffer
                bool const fits = d + 1 <= N;
                if (!fits && !(st.flt != 0 && misuse)) {
                    skip();
                    return;
                }
                bool ok = call(a, !fits, false, [&] { v = etl::to_string<N>(ival); });
                if (ok) {
                    size_t const before = m.size();
                    m.assign(ref, d);
                    changed(before, d);
                }
                return;
            }
            // buffer lengths around the digit count, including zero and exact fit
            size_t const len = static_cast<size_t>((st.k[0] / 7) % (d + 3));
            ctx.log.kv("buflen", static_cast<long long>(len));
            ExactBuf<char> buf(len);
            char* end   = nullptr;
            bool failed = false;
            bool ok     = call(a, false, false, [&] {
                if (var == 1) {
                    auto const r = etl::strings::from_integer(ival, buf.p, len, 10);
                    end          = r.end;
                    failed       = r.error != etl::strings::from_integer_error::none;
                } else {
                    auto const r = etl::to_chars(buf.p, buf.p + len, ival);
                    end          = const_cast<char*>(r.ptr);
                    failed       = r.ec != etl::errc{};
                }
            });
            if (!ok) {
                return;
            }
            if (failed) {
                // refusal: it must really not have fitted (a terminator is needed by from_integer, not by to_chars)
                ++ctx.faultsFired;
                ++ctx.boundaryEvents;
                SIM_COUNT("F1.number_formatting_refused_small_buffer");
                ctx.log.s(" ->refused");
                return;
            }
            size_t const produced = static_cast<size_t>(end - buf.p);
            if (produced != d || std::memcmp(buf.p, ref, d) != 0) {
                ctx.violation("C10", "diff:number-formatting", "formatted digits differ from the C library"); // foreign
                return;
            }
            if (produced <= N) {
                size_t const before = m.size();
                if (call(a, false, false, [&] { v.assign(buf.p, produced); })) {
                    m.assign(ref, d);
                    changed(before, d);
                }
            }
        }
    }

    void step_observe(Step const& st, int kind, int a, int b)
    {
        S const& v      = *obj[a];
        M const& m      = model[a];
        size_t const sz = m.size();
        int nvar        = 7;
        switch (kind) {
        case K_FFO: nvar = 9; break;
        case K_COMPARE: nvar = 11; break;
        case K_AFFIX: nvar = 9; break;
        case K_REL: nvar = 19; break;
        case K_SUBSTR: nvar = 3; break;
        case K_COPYOUT: nvar = 2; break;
        default: break;
        }
        int const var = static_cast<int>(st.k[2] % static_cast<uint64_t>(nvar));
        begin_op(kOps[static_cast<size_t>(kind)].name, a, var);
        if (obj[b] == nullptr) {
            skip();
            return;
        }
        // needle: 0..4 characters, sometimes a slice of the haystack so that matches are frequent
        size_t nlen = static_cast<size_t>(st.k[1] % 5);
        M needle    = text(st, nlen, true);
        if (st.k[1] % 3 == 1 && sz > 0) {
            size_t const off = static_cast<size_t>(st.v[1]) % sz;
            needle           = m.substr(off, nlen);
        }
        M zneedle = needle;
        for (auto& c : zneedle) {
            if (c == Char(0)) {
                c = Char('a');
            }
        }
        Bundle B(needle, zneedle);
        size_t pos  = pick_pos(st.k[0], sz);
        size_t cnt  = pick_count(st.k[0] / 8, sz);
        size_t pos2 = static_cast<size_t>((st.k[0] / 64) % (std::max(model[b].size(), needle.size()) + 2));
        size_t cnt2 = pick_count(st.k[1] / 5, needle.size());
        if (kind == K_COMPARE || kind == K_SUBSTR || kind == K_COPYOUT) {
            // std throws for pos > size(): outside the domain, keep pos inside
            pos = std::min(pos, sz);
            if (pos == npos) {
                pos = sz;
            }
        }
        B.set_common(needle.empty() ? chr_nonul(st.v[0]) : (needle[0] == Char(0) ? Char('a') : needle[0]), pos, cnt, pos2, cnt2);
        B.sa.other = obj[b];
        B.ma.other = &model[b];
        ctx.log.kv("pos", static_cast<long long>(pos));
        ctx.log.kv("cnt", static_cast<long long>(cnt));
        ctx.log.kv("pos2", static_cast<long long>(pos2));
        ctx.log.kv("cnt2", static_cast<long long>(cnt2));
        ctx.log.kv("b", b);
        for (auto c : needle) {
            ctx.log.i(static_cast<long long>(c));
        }

        if (kind == K_SUBSTR) {
            M want = var == 0 ? m.substr(pos, cnt) : (var == 1 ? m.substr(pos) : m.substr());
            M got;
            bool termOk = true;
            auto out    = guarded(true, [&] {
                S r    = var == 0 ? v.substr(pos, cnt) : (var == 1 ? v.substr(pos) : v.substr());
                termOk = r.size() <= N && r.data()[r.size()] == Char(0);
                if (r.size() <= N) {
                    // copied out with the allocator tripwire paused: this line is harness code
                    LibPause pause;
                    got.assign(r.data(), r.size());
                }
            });
            finish_observer(out, got == want && termOk, "substr", 0, 0);
            return;
        }
        if (kind == K_COPYOUT) {
            size_t const n = std::min(cnt, sz - pos);
            ExactBuf<Char> dest(n);
            ExactBuf<Char> mdest(sz + 1);
            size_t want = var == 0 ? m.copy(mdest.p, cnt, pos) : m.copy(mdest.p, std::min(cnt, sz));
            if (var == 1) {
                // copy(dest, count) with the defaulted pos: the destination must hold min(count, size()) characters
                ExactBuf<Char> dest1(std::min(cnt, sz));
                size_t got = 0;
                auto out   = guarded(true, [&] { got = v.copy(dest1.p, std::min(cnt, sz)); });
                bool same  = got == want;
                for (size_t i = 0; i < want && same; ++i) {
                    same = dest1.p[i] == m[i];
                }
                finish_observer(out, same, "copy", static_cast<long long>(got), static_cast<long long>(want));
                return;
            }
            size_t got = 0;
            auto out   = guarded(true, [&] { got = v.copy(dest.p, cnt, pos); });
            bool same  = got == want;
            for (size_t i = 0; i < want && same; ++i) {
                same = dest.p[i] == mdest.p[i];
            }
            finish_observer(out, same, "copy", static_cast<long long>(got), static_cast<long long>(want));
            return;
        }
        if (kind == K_REL && var == 18) {
            // mixed capacities: compare with a string of another capacity holding the needle
            if (needle.size() > N2) {
                skip();
                return;
            }
            bool got[7]{};
            auto out = guarded(true, [&] {
                S2 other(B.sa.ptr, B.sa.len);
                got[0] = v == other;
                got[1] = v != other;
                got[2] = v < other;
                got[3] = v <= other;
                got[4] = v > other;
                got[5] = v >= other;
                got[6] = sgn(v.compare(other)) == sgn(m.compare(needle));
            });
            bool const want[7] = {m == needle, m != needle, m < needle, m <= needle, m > needle, m >= needle, true};
            bool same          = true;
            for (int i = 0; i < 7; ++i) {
                same = same && got[i] == want[i];
            }
            finish_observer(out, same, "mixed-capacity-relational", 0, 0);
            return;
        }
        if (kind == K_AFFIX && var >= 6) {
            // contains(): std::basic_string::contains is C++23, the reference is find() != npos
            long long want = 0;
            long long got  = 0;
            Outcome out    = Outcome::completed;
            if (var == 6) {
                want = m.find(B.ma.view) != npos;
                out  = guarded(true, [&] { got = v.contains(B.sa.view); });
            } else if (var == 7) {
                want = m.find(B.ma.ch) != npos;
                out  = guarded(true, [&] { got = v.contains(B.sa.ch); });
            } else {
                want = m.find(B.ma.cstr) != npos;
                out  = guarded(true, [&] { got = v.contains(B.sa.cstr); });
            }
            finish_observer(out, got == want, "contains", got, want);
            return;
        }
        if (kind == K_COMPARE && (var == 8 || var == 10) && pos2 > needle.size()) {
            // libstdc++ declares compare(pos1, n1, string_view, pos2, n2) noexcept: out_of_range there would terminate
            pos2 = needle.size();
            B.sa.pos2 = B.ma.pos2 = pos2;
        }
        long long want = 0;
        try {
            want = apply_obs(kind, var, m, B.ma);
        } catch (std::exception const&) {
            ctx.log.s(" invalid-in-std");
            skip();
            return;
        }
        long long got = 0;
        auto out      = guarded(true, [&] { got = apply_obs(kind, var, v, B.sa); });
        // known finding: the reverse searches default `pos` to 0 instead of npos
        bool const defaultedPos = (kind == K_RFIND || kind == K_FLO || kind == K_FLNO) && (var == 1 || var == 4 || var == 6);
        if (defaultedPos && out == Outcome::completed && got != want && kf_open("KF-C04-reverse-search-default-pos")) {
            MA alt   = B.ma;
            alt.pos  = 0;
            long long const defect = apply_obs(kind, var - 1, m, alt);
            if (got == defect) {
                ctx.kf("KF-C04-reverse-search-default-pos");
                ctx.log.s(" ->known-finding");
                ctx.log.kv("ret", want);
                return;
            }
        }
        finish_observer(out, got == want, kOps[static_cast<size_t>(kind)].name, got, want);
        ctx.log.kv("ret", got);
    }

    void finish_observer(Outcome out, bool same, char const* what, long long got, long long want)
    {
        if (out == Outcome::trapped) {
            ctx.violation("C05", "contract:spurious", std::string("handler entered on a valid ") + what + " at " + trap_site());
            return;
        }
        if (out == Outcome::alloc_tripped) {
            return;
        }
        if (!same) {
            ctx.violation(
                "C04",
                std::string("diff:") + what,
                std::string(what) + " returned " + std::to_string(got) + " want " + std::to_string(want)
            );
        }
    }

    void run()
    {
        ctx.step = -1;
        ctx.op   = "create";
        for (int s = 0; s < pool; ++s) {
            create_default(s);
        }
        observe_all();
        ctx.log.nl();
        for (size_t i = 0; i < plan.steps.size() && !ctx.stop; ++i) {
            ctx.step     = static_cast<int>(i);
            g_crash.step = ctx.step;
            step(plan.steps[i]);
            if (ctx.stop) {
                break;
            }
            observe_all();
            ctx.log.nl();
        }
        ctx.op = "destroy";
        if (ctx.stop) {
            return;
        }
        for (int s = 0; s < pool; ++s) {
            destroy(s);
        }
    }
};

template <typename Char, size_t N, typename STr = etl::char_traits<Char>, typename MTr = std::char_traits<Char>>
void add_one(char const* cname)
{
    using D = StrDriver<Char, N, STr, MTr>;
    Scenario s;
    s.family = "str";
    s.name   = std::string("inplace_string<") + cname + "," + std::to_string(N) + ">";
    s.ops    = kOps;
    s.props  = {"C04", "C02", "C05"};
    s.run    = [](Plan const& p, Ctx& c) {
        D d(p, c);
        d.run();
    };
    registry().push_back(std::move(s));
}

template <typename Char>
void add_all(char const* cname)
{
    add_one<Char, 1>(cname);
    add_one<Char, 7>(cname);
    add_one<Char, 15>(cname);
    add_one<Char, 16>(cname);
    add_one<Char, 31>(cname);
    add_one<Char, 255>(cname);
    add_one<Char, 256>(cname);
}

} // namespace

void register_str_0();
void register_str_1();
void register_str_2();
void register_str_3();
void register_str_4();

#if SIM_PART == 0
void register_str_0()
{
    add_all<char>("char");
    add_one<char, 7, EtlFold, StdFold>("char/fold_traits");
    add_one<char, 15, EtlFold, StdFold>("char/fold_traits");
    add_one<char, 31, EtlFold, StdFold>("char/fold_traits");
}

auto main(int argc, char** argv) -> int
{
    register_str_0();
    register_str_1();
    register_str_2();
    register_str_3();
    register_str_4();
    return sim::worker_main(argc, argv);
}
#elif SIM_PART == 1
void register_str_1() { add_all<wchar_t>("wchar_t"); }
#elif SIM_PART == 2
void register_str_2() { add_all<char8_t>("char8_t"); }
#elif SIM_PART == 3
void register_str_3() { add_all<char16_t>("char16_t"); }
#elif SIM_PART == 4
void register_str_4() { add_all<char32_t>("char32_t"); }
#endif
