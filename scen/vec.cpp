// Family `vec`: static_vector, inplace_vector and stack histories against std::vector.
// Oracles: differential + structural + refusal (C01), lifetime registry (C03), memory (C02), contract (C05).
#include <etl/inplace_vector.hpp>
#include <etl/stack.hpp>
#include <etl/vector.hpp>

#if !defined(SIM_PART)
    #define SIM_PART 0
#endif
#if SIM_PART == 0
    #define SIM_MAIN_TU 1
#endif
#include "../sim/composite.hpp"
#include "../sim/driver.hpp"
#include "../sim/worker.hpp"

#include <vector>

namespace {

using namespace sim;

constexpr int kTemp = kSlots - 1; // scratch arena slot

enum class VK { static_vec, inplace_vec };

template <typename Vec, typename T, size_t N, VK Which>
struct VecDriver {
    static constexpr bool isStatic  = Which == VK::static_vec;
    static constexpr bool tracked   = is_tracked_v<T>;
    // elements that contain instrumented objects without being one: the registry watches their parts
    static constexpr bool watched   = tracked || std::is_same_v<T, sim::Nest>;
    static constexpr bool copyable  = etl::is_copy_constructible_v<T>;
    static constexpr bool moveOnly  = !copyable;
    static constexpr bool checks    = SIM_CHECKS != 0;

    Plan const& plan;
    Ctx& ctx;
    int pool;
    Vec* obj[3]           = {nullptr, nullptr, nullptr};
    bool moved[3]         = {false, false, false};
    std::vector<int> model[3];
    bool misuse;
    char const* answerProp = nullptr; // see DriverBase::answerProp

    VecDriver(Plan const& p, Ctx& c)
        : plan(p)
        , ctx(c)
        , pool(p.cfg.pool < 1 ? 1 : (p.cfg.pool > 3 ? 3 : p.cfg.pool))
        , misuse(checks && p.property != "C02")
    {
    }

    // ---------------------------------------------------------------- creation / destruction
    auto raw(int s) -> void* { return arena_prepare(s, sizeof(Vec), plan.cfg, static_cast<uint64_t>(ctx.step + 1), alignof(Vec)); }

    void create_default(int s)
    {
        bool defaultInit = ((plan.cfg.create >> s) & 1U) != 0;
        if constexpr (!isStatic && N != 0) {
            // KF: inplace_vector's size member has no initialiser; default-initialisation leaves it indeterminate
            if (defaultInit && kf_open("KF-C02-inplace-vector-default-init")) {
                probe_default_init();
                defaultInit = false;
            }
        }
        void* mem = raw(s);
        guarded(true, [&] {
            if (defaultInit) {
                obj[s] = new (mem) Vec;
            } else {
                obj[s] = new (mem) Vec{};
            }
        });
        if (defaultInit) {
            SIM_COUNT("F3.default_init_in_dirty_memory");
        } else {
            SIM_COUNT("F3.value_init_in_dirty_memory");
        }
        model[s].clear();
        moved[s] = false;
    }

    // quarantined execution of the known-finding input class on a scratch object
    void probe_default_init()
    {
#if !defined(SIM_VALGRIND)
        unsigned char* mem = static_cast<unsigned char*>(arena_prepare(kTemp, sizeof(Vec), plan.cfg, 9001, alignof(Vec)));
        unsigned char before[sizeof(Vec)];
        std::memcpy(before, mem, sizeof(Vec));
        size_t n = 0;
        Vec* p   = nullptr;
        guarded(false, [&] {
            p = new (mem) Vec;
            n = p->size();
        });
        bool matchesDefect = false;
        for (size_t w : {size_t{1}, size_t{2}, size_t{4}, size_t{8}}) {
            for (size_t off = 0; off + w <= sizeof(Vec); ++off) {
                uint64_t x = 0;
                std::memcpy(&x, before + off, w);
                matchesDefect = matchesDefect || (x == n);
            }
        }
        if (n == 0) {
            SIM_COUNT("kf.ipv_default_init.matches_reference");
        } else if (matchesDefect) {
            ctx.kf("KF-C02-inplace-vector-default-init");
        } else {
            ctx.violation("C02", "memory:uninitialised-size", "default-initialised inplace_vector reports size " + std::to_string(n));
        }
        // the scratch object is abandoned without running its destructor (its size is garbage)
        arena_retire(kTemp);
#endif
    }

    void destroy(int s)
    {
        if (obj[s] == nullptr) {
            return;
        }
        auto* lo = slot_obj(s);
        guarded(true, [&] { obj[s]->~Vec(); });
        if constexpr (watched) {
            if (reg().live_in(lo, lo + sizeof(Vec)) != 0) {
                ctx.violation("C03", "lifetime:alive-after-owner-destroyed", "elements alive inside a destroyed owner");
                reg().forget_range(lo, lo + sizeof(Vec));
            }
        }
        if (!arena_guards_ok(s)) {
            ctx.violation("C02", "memory:guard-damaged", "guard bytes around the object were overwritten");
        }
        arena_retire(s);
        obj[s] = nullptr;
    }

    // ---------------------------------------------------------------- helpers
    static constexpr bool floating = std::is_floating_point_v<T>;

    // takes and returns the vector by value across a call the optimiser cannot see through
    [[gnu::noinline]] static auto through_a_call(Vec v) -> Vec
    {
        asm volatile("" : : "r"(&v) : "memory");
        return v;
    }

    static auto mk(int64_t v) -> T
    {
        if constexpr (floating) {
            return static_cast<T>(decode_float(v));
        } else {
            return T(static_cast<int>(v));
        }
    }

    // constructor argument for the emplace family: the int itself (in-place construction from an argument), or the
    // decoded value for floating-point elements
    static auto earg(int v) -> std::conditional_t<floating, double, int>
    {
        if constexpr (floating) {
            return decode_float(v);
        } else {
            return v;
        }
    }

    // The six relations as the pre-C++20 definitions compute them from operator== and operator< alone. For sequences
    // that contain unordered values (NaN) they differ from C++20's std::vector, whose ordering operators come from a
    // synthesised three-way comparison: known finding KF-C01-relational-partial-order.
    template <typename Seq>
    static void legacy_relations(Seq const& a, Seq const& b, bool (&w)[6])
    {
        auto lt = [](Seq const& x, Seq const& y) {
            size_t i = 0;
            for (; i < x.size() && i < y.size(); ++i) {
                if (x[i] < y[i]) {
                    return true;
                }
                if (y[i] < x[i]) {
                    return false;
                }
            }
            return i == x.size() && i != y.size();
        };
        w[0] = a == b;
        w[1] = !(a == b);
        w[2] = lt(a, b);
        w[3] = !lt(b, a);
        w[4] = lt(b, a);
        w[5] = !lt(a, b);
    }

    // returns true if the observed relations are the known pre-C++20 deviation (and records it)
    template <typename Seq>
    static auto known_partial_order_deviation(Ctx& ctx, Seq const& a, Seq const& b, bool const (&r)[6]) -> bool
    {
        if constexpr (floating) {
            if (!kf_open("KF-C01-relational-partial-order")) {
                return false;
            }
            bool hasNan = false;
            for (auto x : a) {
                hasNan = hasNan || x != x;
            }
            for (auto x : b) {
                hasNan = hasNan || x != x;
            }
            bool w[6]{};
            legacy_relations(a, b, w);
            for (int k = 0; k < 6; ++k) {
                if (r[k] != w[k]) {
                    return false;
                }
            }
            if (hasNan) {
                ctx.kf("KF-C01-relational-partial-order");
                return true;
            }
        }
        return false;
    }

    // model-side comparison vectors: codes for ordinary element types, decoded values for floating-point ones
    static auto comparable(std::vector<int> const& m)
    {
        if constexpr (floating) {
            std::vector<double> d;
            for (int c : m) {
                d.push_back(decode_float(c));
            }
            return d;
        } else if constexpr (std::is_same_v<T, Coarse>) {
            std::vector<Coarse> d;
            for (int c : m) {
                d.push_back(Coarse(c));
            }
            return d;
        } else {
            return m;
        }
    }

    auto sane(int s) -> bool { return obj[s]->size() <= N; }

    void resync(int s)
    {
        if (obj[s] == nullptr) {
            return;
        }
        if (!sane(s)) {
            ctx.stop = true;
            return;
        }
        model[s].clear();
        guarded(false, [&] {
            for (size_t i = 0; i < obj[s]->size(); ++i) {
                model[s].push_back(static_cast<int>(value_of(obj[s]->data()[i])));
            }
        });
    }

    // Outcome handling shared by every SUT call. Returns true if the call completed.
    template <typename F>
    auto call(int s, bool expectTrap, bool late, F&& f) -> bool
    {
        if (expectTrap) {
            ctx.stepClass     = 2;
            g_crash.stepClass = 2;
        }
        if constexpr (watched) {
            reg().mark_harness_held();
        }
        uint64_t const userCallsBefore = g_user_calls != nullptr ? g_user_calls() : 0;
        auto out = guarded(true, static_cast<F&&>(f));
        if (out == Outcome::trapped && expectTrap && !late && g_trap.userCalls != userCallsBefore) {
            // the violation is visible from the arguments alone: the handler has to run before any user code does
            ctx.violation("C05", "contract:user-code-before-handler", "an element constructor / assignment ran before the handler was entered at " + trap_site());
        }
        if (expectTrap && !arena_guards_ok(s)) {
            // damage done by a precondition-violating call belongs to the contract property
            ctx.violation("C05", "contract:damage-before-handler:guard", "memory outside the object was written by a precondition-violating call");
            arena_guards_repair(s);
        }
        ctx.stepClass     = 0;
        g_crash.stepClass = 0;
        if (out == Outcome::alloc_tripped) {
            resync(s);
            return false;
        }
        if (out == Outcome::trapped) {
            if constexpr (watched) {
                reg().forgive_outside_arena();
            }
            if (expectTrap) {
                ++ctx.faultsFired;
                ++ctx.boundaryEvents;
                SIM_COUNT("F2.trapped_by_handler");
                count_dyn("guard." + trap_site());
                ctx.log.s(" ->trap");
                if (!trap_location_ok()) {
                    ctx.violation("C05", "contract:no-location", "handler entered without a usable file/line");
                }
                if (late) {
                    resync(s);
                } else if (!check_state(s, "C05", "contract:modified-before-handler")) {
                    resync(s);
                }
            } else {
                ctx.violation("C05", "contract:spurious", "handler entered on a valid call at " + trap_site());
                if (answerProp != nullptr) {
                    ctx.violation(answerProp, "refusal:trapped-instead", "a call with a documented answer at capacity entered the handler at " + trap_site());
                }
                ctx.log.s(" ->spurious-trap");
                resync(s);
            }
            return false;
        }
        if (expectTrap) {
            ctx.violation("C05", "contract:not-entered", "precondition violated but the handler was not entered");
            ctx.log.s(" ->no-trap");
            resync(s);
            return false;
        }
        return true;
    }

    // ---------------------------------------------------------------- observation
    // compares one object with its model; violations are filed under `prop`
    auto check_state(int s, char const* prop, char const* clausePrefix) -> bool
    {
        Vec& v                   = *obj[s];
        std::vector<int> const& m = model[s];
        bool mismatch            = false;
        auto bad                 = [&](char const* what, long long got, long long want) {
            mismatch = true;
            ctx.violation(
                prop,
                std::string(clausePrefix) + ":" + what,
                std::string(what) + " got " + std::to_string(got) + " want " + std::to_string(want) + " (slot " + std::to_string(s) + ")"
            );
        };
        auto out = guarded(false, [&] {
            if (v.size() > N) {
                bad("size>capacity", static_cast<long long>(v.size()), static_cast<long long>(N));
                ctx.stop = true;
                return;
            }
            if (v.capacity() != N) {
                bad("capacity", static_cast<long long>(v.capacity()), static_cast<long long>(N));
            }
            if (v.max_size() != N) {
                bad("max_size", static_cast<long long>(v.max_size()), static_cast<long long>(N));
            }
            if constexpr (N != 0) {
                // like std::vector, the element storage is suitably aligned for T wherever the vector itself is placed
                // (the arena places objects at minimally aligned addresses in half of the runs)
                if (reinterpret_cast<uintptr_t>(v.data()) % alignof(T) != 0) {
                    bad("data-alignment", static_cast<long long>(reinterpret_cast<uintptr_t>(v.data()) % alignof(T)), 0);
                }
            }
            if (moved[s]) {
                return; // a moved-from object only has to be valid; its value is unspecified
            }
            if (v.size() != m.size()) {
                bad("size", static_cast<long long>(v.size()), static_cast<long long>(m.size()));
                return;
            }
            if (v.empty() != m.empty()) {
                bad("empty", v.empty(), m.empty());
            }
            if constexpr (isStatic) {
                if (v.full() != (m.size() == N)) {
                    bad("full", v.full(), m.size() == N);
                }
            }
            Vec const& cv = v;
            if ((v.end() - v.begin()) != static_cast<long>(m.size()) || (cv.end() - cv.begin()) != static_cast<long>(m.size())) {
                bad("iterator-distance", v.end() - v.begin(), static_cast<long long>(m.size()));
                return;
            }
            if (v.begin() != v.data() || cv.begin() != cv.data()) {
                bad("begin!=data", 0, 1);
            }
            size_t i = 0;
            for (auto it = cv.begin(); it != cv.end(); ++it, ++i) {
                if (value_of(*it) != m[i]) {
                    bad("element", value_of(*it), m[i]);
                    return;
                }
                if constexpr (std::is_same_v<T, sim::Sealed>) {
                    if (!it->untouched()) {
                        ctx.violation("C02", "memory:relocated-behind-special-members", "an element that is not trivially copyable holds a value its own special members never put at this address (moved by memcpy / memmove)");
                    }
                }
            }
            if constexpr (isStatic) {
                i = m.size();
                for (auto it = cv.rbegin(); it != cv.rend(); ++it) {
                    --i;
                    if (value_of(*it) != m[i]) {
                        bad("reverse-element", value_of(*it), m[i]);
                        return;
                    }
                }
                if (i != 0) {
                    bad("reverse-distance", static_cast<long long>(i), 0);
                }
                if (cv.cbegin() != cv.begin() || cv.cend() != cv.end()) {
                    bad("cbegin/cend", 0, 1);
                }
            }
            if (!m.empty()) {
                for (size_t j = 0; j < m.size(); ++j) {
                    if (value_of(cv[j]) != m[j] || value_of(v[j]) != m[j]) {
                        bad("operator[]", value_of(cv[j]), m[j]);
                        return;
                    }
                }
                if (value_of(cv.front()) != m.front() || value_of(v.front()) != m.front()) {
                    bad("front", value_of(cv.front()), m.front());
                }
                if (value_of(cv.back()) != m.back() || value_of(v.back()) != m.back()) {
                    bad("back", value_of(cv.back()), m.back());
                }
                if (&v.front() != v.data() || &v.back() != v.data() + (m.size() - 1)) {
                    bad("front/back-address", 0, 1);
                }
            }
        });
        if (out == Outcome::trapped) {
            ctx.violation("C05", "contract:spurious", "handler entered while observing a valid object at " + trap_site());
            ctx.stop = true;
        }
        return !mismatch;
    }

    void check_lifetime(int s)
    {
        if constexpr (tracked) {
            if (!sane(s)) {
                return;
            }
            auto* lo   = slot_obj(s);
            size_t n   = obj[s]->size();
            size_t got = reg().live_in(lo, lo + sizeof(Vec));
            if (got != n) {
                ctx.violation(
                    "C03",
                    got > n ? "lifetime:leak-inside-owner" : "lifetime:missing-element",
                    std::to_string(got) + " live elements inside the owner, size() is " + std::to_string(n)
                );
                return;
            }
            for (size_t i = 0; i < n; ++i) {
                if (!reg().is_live(obj[s]->data() + i)) {
                    ctx.violation("C03", "lifetime:dead-element-in-range", "element " + std::to_string(i) + " of [begin,end) is not alive");
                    return;
                }
            }
        }
    }

    void check_relations()
    {
        if constexpr (isStatic) {
            for (int x = 0; x < pool; ++x) {
                for (int y = 0; y < pool; ++y) {
                    if (obj[x] == nullptr || obj[y] == nullptr || moved[x] || moved[y]) {
                        continue;
                    }
                    Vec const& a = *obj[x];
                    Vec const& b = *obj[y];
                    auto const& ma = model[x];
                    auto const& mb = model[y];
                    bool r[6]{};
                    auto out = guarded(false, [&] {
                        r[0] = a == b;
                        r[1] = a != b;
                        r[2] = a < b;
                        r[3] = a <= b;
                        r[4] = a > b;
                        r[5] = a >= b;
                    });
                    if (out != Outcome::completed) {
                        ctx.violation("C05", "contract:spurious", "handler entered in a relational operator");
                        return;
                    }
                    auto const ca   = comparable(ma);
                    auto const cb   = comparable(mb);
                    bool const w[6] = {ca == cb, ca != cb, ca < cb, ca <= cb, ca > cb, ca >= cb};
                    static char const* const names[6] = {"==", "!=", "<", "<=", ">", ">="};
                    for (int k = 0; k < 6; ++k) {
                        if (r[k] != w[k]) {
                            if (known_partial_order_deviation(ctx, ca, cb, r)) {
                                break;
                            }
                            ctx.violation("C01", std::string("diff:relational:") + names[k], "operator differs from std::vector");
                            return;
                        }
                    }
                }
            }
        }
    }

    void observe_all()
    {
        uint64_t sh = hstr(plan.scenario.c_str());
        for (int s = 0; s < pool && !ctx.stop; ++s) {
            if (obj[s] == nullptr) {
                continue;
            }
            if (!check_state(s, "C01", "diff")) {
                // diverged: report once, then re-synchronise the model so that the rest of the history is still meaningful
                if (ctx.stop) {
                    break;
                }
                resync(s);
            }
            if (ctx.stop) {
                break;
            }
            check_lifetime(s);
            if (!arena_guards_ok(s)) {
                ctx.violation("C02", "memory:guard-damaged", "guard bytes around the object were overwritten");
            }
            ctx.log.s(" |");
            ctx.log.u(obj[s]->size());
            if (!moved[s]) {
                // the log records what the SUT shows (not the model), so that the log hash is a function of SUT behaviour
                uint64_t eh = obj[s]->size();
                std::string txt;
                guarded(false, [&] {
                    for (size_t i = 0; i < obj[s]->size(); ++i) {
                        long long const x = value_of(obj[s]->data()[i]);
                        eh                = mix64(eh ^ static_cast<uint64_t>(x));
                        if (ctx.log.text && i < 12) {
                            txt += (i != 0 ? "," : "") + std::to_string(x);
                        }
                    }
                });
                ctx.log.feed(eh);
                if (ctx.log.text) {
                    ctx.log.out += " [" + txt + (obj[s]->size() > 12 ? ",...]" : "]");
                }
                sh = mix64(sh ^ eh ^ (static_cast<uint64_t>(s) << 56));
            } else {
                ctx.log.s(" moved-from");
                sh = mix64(sh ^ 0x77);
            }
        }
        if (!ctx.stop) {
            check_relations();
        }
        if constexpr (watched) {
            if (size_t const strays = reg().strays_in_arena(); strays != 0) {
                ctx.violation("C02", "memory:object-outside-its-owner", std::to_string(strays) + " element(s) were constructed outside the storage of the vector that owns them");
            }
            if (reg().live_outside_arena() != 0) {
                ctx.violation("C03", "lifetime:temporary-leaked", "a temporary element is still alive after the call returned");
                reg().harnessHeld.clear();
                reg().forgive_outside_arena();
            }
        }
        if (g_counting) {
            states().insert(sh);
            transitions().insert(mix64(sh ^ hstr(ctx.op)));
        }
    }

    // size class for coverage accounting
    static auto size_class(size_t n) -> int
    {
        if (n == 0) {
            return 0;
        }
        if (n == N) {
            return 4;
        }
        if (n == 1) {
            return 1;
        }
        if (n + 1 == N) {
            return 3;
        }
        return 2;
    }

    // ---------------------------------------------------------------- the run
    void run()
    {
        ctx.step = -1;
        ctx.op   = "create";
        for (int s = 0; s < pool; ++s) {
            create_default(s);
        }
        observe_all();
        ctx.log.nl();
        for (size_t i = 0; i < plan.steps.size() && !ctx.stop; ++i) {
            Step const& st = plan.steps[i];
            ctx.step       = static_cast<int>(i);
            g_crash.step   = ctx.step;
            if constexpr (isStatic) {
                step_static(st);
            } else {
                step_inplace(st);
            }
            if (ctx.stop) {
                break;
            }
            observe_all();
            ctx.log.nl();
        }
        ctx.op = "destroy";
        if (ctx.stop) {
            // the object cannot be trusted any more: abandon it without running destructors
            reg().reset();
            return;
        }
        for (int s = 0; s < pool; ++s) {
            destroy(s);
        }
    }

    void begin_op(char const* name, int a)
    {
        ctx.op           = name;
        this->answerProp = nullptr;
        crash_set_op(name);
        ctx.log.s(name);
        ctx.log.kv("a", a);
    }

    void changed(int s, size_t before)
    {
        ++ctx.stateChanging;
        size_t after = model[s].size();
        if ((after == N && before != N) || (after == 0 && before != 0)) {
            ++ctx.boundaryEvents;
        }
        if (N >= 255 && ((before <= 255 && after >= 256) || (before >= 255 && after <= 254))) {
            SIM_COUNT("reach.size_type_boundary_255_256_crossed");
        }
    }

    void skip()
    {
        ctx.log.s(" skip");
        SIM_COUNT("steps.skipped");
    }

    // range argument in an exact-size heap buffer
    struct Range {
        ExactBuf<T> buf;
        size_t n;

        Range(size_t count, Step const& st)
            : buf(count)
            , n(count)
        {
            for (size_t i = 0; i < count; ++i) {
                new (buf.p + i) T(mk((st.v[i % 4] + static_cast<int64_t>(i / 4)) % 8));
            }
        }

        ~Range()
        {
            for (size_t i = 0; i < n; ++i) {
                if constexpr (tracked) {
                    if (!reg().is_live(buf.p + i)) {
                        continue; // abandoned-stack forgiveness may have dropped it; nothing to do
                    }
                }
                buf.p[i].~T();
            }
        }

        [[nodiscard]] auto value(size_t i, Step const& st) const -> int
        {
            return static_cast<int>((st.v[i % 4] + static_cast<int64_t>(i / 4)) % 8);
        }
    };

    // ================================================================ static_vector steps
    void step_static(Step const& st)
    {
        if constexpr (isStatic) {
            int const a = static_cast<int>(st.a % static_cast<uint32_t>(pool));
            int const b = static_cast<int>(st.b % static_cast<uint32_t>(pool));
            auto const& name = find_op(st.op);
            begin_op(name, a);
            Vec& v      = *obj[a];
            auto& m     = model[a];
            size_t const sz   = m.size();
            size_t const room = N - sz;
            bool const flt    = st.flt != 0;
            std::string const op = name;
            count_dyn(std::string("op.") + name + ".sizeclass" + std::to_string(size_class(sz)));

            // operations a moved-from object must still support: assignment, clear, destruction (recreate)
            if (moved[a] && op != "copy_assign" && op != "move_assign" && op != "clear" && op != "recreate" && op != "assign_n"
                && op != "assign_range") {
                skip();
                return;
            }
            if (moved[a]) {
                SIM_COUNT("F7.moved_from_reused");
            }

            if (op == "push_back_copy" || op == "push_back_move" || op == "emplace_back") {
                if (op == "push_back_copy" && !copyable) {
                    skip();
                    return;
                }
                bool const full = sz == N;
                if (full && !(flt && misuse)) {
                    skip();
                    return;
                }
                // F6: the argument is one of the vector's own elements
                bool const alias = copyable && op != "push_back_move" && !full && sz > 0 && st.k[1] % 4 == 0;
                int val          = static_cast<int>(st.v[0]);
                size_t aliasIdx  = 0;
                if (alias) {
                    aliasIdx = static_cast<size_t>(st.k[2] % sz);
                    val      = m[aliasIdx];
                    SIM_COUNT("F6.aliasing_push_back");
                }
                ctx.log.kv("v", val);
                ctx.log.kv("alias", alias);
                T tmp = mk(val);
                bool ok = call(a, full, false, [&] {
                    if (op == "push_back_copy") {
                        if constexpr (copyable) {
                            v.push_back(alias ? static_cast<T const&>(v[aliasIdx]) : static_cast<T const&>(tmp));
                        }
                    } else if (op == "push_back_move") {
                        v.push_back(static_cast<T&&>(tmp));
                    } else if (alias) {
                        if constexpr (copyable) {
                            v.emplace_back(static_cast<T const&>(v[aliasIdx]));
                        }
                    } else {
                        v.emplace_back(earg(val));
                    }
                });
                if (ok) {
                    m.push_back(val);
                    changed(a, sz);
                }
                return;
            }
            if (op == "pop_back") {
                bool const empty = sz == 0;
                if (empty && !(flt && misuse)) {
                    skip();
                    return;
                }
                bool ok = call(a, empty, false, [&] { v.pop_back(); });
                if (ok) {
                    m.pop_back();
                    changed(a, sz);
                }
                return;
            }
            if (op == "insert_copy" || op == "insert_move" || op == "emplace") {
                if (op == "insert_copy" && !copyable) {
                    skip();
                    return;
                }
                bool full = sz == N;
                bool badPos = false;
                size_t pos = static_cast<size_t>(st.k[0] % (sz + 1));
                if (flt && misuse && !full && st.k[2] % 2 == 1 && N != 0) {
                    // position outside [begin, end]: one past end, or before begin
                    badPos = true;
                } else if (full && !(flt && misuse)) {
                    skip();
                    return;
                }
                bool const alias = copyable && op != "insert_move" && !badPos && !full && sz > 0 && st.k[1] % 4 == 0;
                int val          = static_cast<int>(st.v[0]);
                size_t aliasIdx  = 0;
                if (alias) {
                    aliasIdx = static_cast<size_t>(st.k[2] % sz);
                    val      = m[aliasIdx];
                    SIM_COUNT("F6.aliasing_insert");
                }
                ctx.log.kv("pos", static_cast<long long>(pos));
                ctx.log.kv("v", val);
                ctx.log.kv("alias", alias);
                ctx.log.kv("badpos", badPos);
                T tmp = mk(val);
                typename Vec::iterator ret{};
                typename Vec::const_iterator where = v.cbegin() + static_cast<long>(pos);
                if (badPos) {
                    where = st.flt == 1 ? v.cend() + 1 : v.cbegin() - 1;
                }
                bool ok = call(a, full || badPos, false, [&] {
                    if (op == "insert_copy") {
                        if constexpr (copyable) {
                            ret = alias ? v.insert(where, static_cast<T const&>(v[aliasIdx])) : v.insert(where, static_cast<T const&>(tmp));
                        }
                    } else if (op == "insert_move") {
                        ret = v.insert(where, static_cast<T&&>(tmp));
                    } else if (alias) {
                        if constexpr (copyable) {
                            ret = v.emplace(where, static_cast<T const&>(v[aliasIdx]));
                        }
                    } else {
                        ret = v.emplace(where, earg(val));
                    }
                });
                if (ok) {
                    m.insert(m.begin() + static_cast<long>(pos), val);
                    if (ret - v.begin() != static_cast<long>(pos)) {
                        ctx.violation("C01", "diff:returned-iterator", "insert returned offset " + std::to_string(ret - v.begin()) + " want " + std::to_string(pos));
                    }
                    changed(a, sz);
                }
                return;
            }
            if (op == "insert_n") {
                if constexpr (copyable) {
                    size_t pos = static_cast<size_t>(st.k[0] % (sz + 1));
                    size_t n   = static_cast<size_t>(st.k[1] % (room + 1));
                    bool bad   = false;
                    if (flt && misuse) {
                        n   = static_cast<size_t>(beyond(room + 1, st.flt));
                        bad = true;
                    }
                    bool const alias = !bad && sz > 0 && st.k[2] % 4 == 0;
                    int val          = static_cast<int>(st.v[0]);
                    size_t aliasIdx  = 0;
                    if (alias) {
                        aliasIdx = static_cast<size_t>(st.v[1] % sz);
                        val      = m[aliasIdx];
                        SIM_COUNT("F6.aliasing_insert_n");
                    }
                    ctx.log.kv("pos", static_cast<long long>(pos));
                    ctx.log.kv("n", static_cast<long long>(n));
                    ctx.log.kv("v", val);
                    ctx.log.kv("alias", alias);
                    T tmp = mk(val);
                    typename Vec::iterator ret{};
                    bool ok = call(a, bad, false, [&] {
                        ret = v.insert(v.cbegin() + static_cast<long>(pos), n, alias ? static_cast<T const&>(v[aliasIdx]) : static_cast<T const&>(tmp));
                    });
                    if (ok) {
                        m.insert(m.begin() + static_cast<long>(pos), n, val);
                        if (ret - v.begin() != static_cast<long>(pos)) {
                            ctx.violation("C01", "diff:returned-iterator", "insert(n) returned offset " + std::to_string(ret - v.begin()));
                        }
                        if (n != 0) {
                            changed(a, sz);
                        }
                    }
                } else {
                    skip();
                }
                return;
            }
            if (op == "insert_range" || op == "move_insert") {
                if (op == "insert_range" && !copyable) {
                    skip();
                    return;
                }
                size_t pos = static_cast<size_t>(st.k[0] % (sz + 1));
                size_t n   = static_cast<size_t>(st.k[1] % (room + 1));
                bool bad   = false;
                bool reversed = false;
                if (flt && misuse) {
                    bad = true;
                    if (st.flt == 3 && n > 0) {
                        reversed = true; // (last, first): an invalid iterator pair
                    } else {
                        n = room + static_cast<size_t>(st.flt);
                    }
                }
                ctx.log.kv("pos", static_cast<long long>(pos));
                ctx.log.kv("n", static_cast<long long>(n));
                ctx.log.kv("rev", reversed);
                Range r(n, st);
                typename Vec::iterator ret{};
                if constexpr (std::is_same_v<T, sim::Tracked>) {
                    if (op == "insert_range" && !bad && n > 0 && st.k[2] % 3 == 0) {
                        // the source range is an array of a class DERIVED from the element type (larger than it): like
                        // std::vector, every element is built from its base sub-object, stepping by sizeof(Derived)
                        struct Derived : T {
                            int extra;

                            explicit Derived(int x)
                                : T(x)
                                , extra(1000 + x)
                            {
                            }
                        };
                        ExactBuf<Derived> dbuf(n);
                        for (size_t i = 0; i < n; ++i) {
                            new (dbuf.p + i) Derived(r.value(i, st));
                        }
                        bool okd = call(a, false, false, [&] {
                            ret = v.insert(v.cbegin() + static_cast<long>(pos), static_cast<Derived const*>(dbuf.begin()), static_cast<Derived const*>(dbuf.end()));
                        });
                        for (size_t i = 0; i < n; ++i) {
                            dbuf.p[i].~Derived();
                        }
                        if (okd) {
                            for (size_t i = 0; i < n; ++i) {
                                m.insert(m.begin() + static_cast<long>(pos + i), r.value(i, st));
                            }
                            if (ret - v.begin() != static_cast<long>(pos)) {
                                ctx.violation("C01", "diff:returned-iterator", "insert(range of derived objects) returned offset " + std::to_string(ret - v.begin()));
                            }
                            changed(a, sz);
                        }
                        return;
                    }
                }
                bool ok = call(a, bad, false, [&] {
                    T* f = reversed ? r.buf.end() : r.buf.begin();
                    T* l = reversed ? r.buf.begin() : r.buf.end();
                    if (op == "insert_range") {
                        if constexpr (copyable) {
                            ret = v.insert(v.cbegin() + static_cast<long>(pos), static_cast<T const*>(f), static_cast<T const*>(l));
                        }
                    } else {
                        ret = v.move_insert(v.cbegin() + static_cast<long>(pos), f, l);
                    }
                });
                if (ok) {
                    for (size_t i = 0; i < n; ++i) {
                        m.insert(m.begin() + static_cast<long>(pos + i), r.value(i, st));
                    }
                    if (ret - v.begin() != static_cast<long>(pos)) {
                        ctx.violation("C01", "diff:returned-iterator", "insert(range) returned offset " + std::to_string(ret - v.begin()));
                    }
                    if (n != 0) {
                        changed(a, sz);
                    }
                }
                return;
            }
            if (op == "erase_pos") {
                if constexpr (etl::detail::is_movable_v<T>) {
                    bool bad   = false;
                    size_t pos = sz == 0 ? 0 : static_cast<size_t>(st.k[0] % sz);
                    if (flt && misuse && st.flt >= 2 && N != 0) {
                        bad = true; // position beyond end(): end()+1, or before begin
                    } else if (sz == 0) {
                        skip();
                        return;
                    }
                    ctx.log.kv("pos", static_cast<long long>(pos));
                    ctx.log.kv("bad", bad);
                    typename Vec::iterator ret{};
                    typename Vec::const_iterator where = v.cbegin() + static_cast<long>(pos);
                    if (bad) {
                        where = st.flt == 2 ? v.cend() + 1 : v.cbegin() - 1;
                    }
                    bool ok = call(a, bad, false, [&] { ret = v.erase(where); });
                    if (ok) {
                        m.erase(m.begin() + static_cast<long>(pos));
                        if (ret - v.begin() != static_cast<long>(pos)) {
                            ctx.violation("C01", "diff:returned-iterator", "erase returned offset " + std::to_string(ret - v.begin()));
                        }
                        changed(a, sz);
                    }
                } else {
                    skip();
                }
                return;
            }
            if (op == "erase_range") {
                if constexpr (etl::detail::is_movable_v<T>) {
                    size_t f = static_cast<size_t>(st.k[0] % (sz + 1));
                    size_t l = f + static_cast<size_t>(st.k[1] % (sz - f + 1));
                    bool bad = false;
                    long fo = static_cast<long>(f);
                    long lo = static_cast<long>(l);
                    if (flt && misuse && N != 0) {
                        bad = true;
                        if (st.flt == 1) {
                            lo = static_cast<long>(sz) + 1; // last beyond end
                        } else if (st.flt == 2) {
                            if (f == l) {
                                // an EMPTY range that lies outside [begin, end] (a stale iterator used twice)
                                fo = static_cast<long>(sz) + 1 + static_cast<long>(st.k[2] % 2);
                                lo = fo;
                            } else {
                                fo = static_cast<long>(l); // reversed pair
                                lo = static_cast<long>(f);
                            }
                        } else {
                            fo = -1; // first before begin
                        }
                    }
                    ctx.log.kv("first", fo);
                    ctx.log.kv("last", lo);
                    typename Vec::iterator ret{};
                    bool ok = call(a, bad, false, [&] { ret = v.erase(v.cbegin() + fo, v.cbegin() + lo); });
                    if (ok) {
                        m.erase(m.begin() + fo, m.begin() + lo);
                        if (ret - v.begin() != fo) {
                            ctx.violation("C01", "diff:returned-iterator", "erase(range) returned offset " + std::to_string(ret - v.begin()));
                        }
                        if (f != l) {
                            changed(a, sz);
                        }
                    }
                } else {
                    skip();
                }
                return;
            }
            if (op == "clear") {
                bool ok = call(a, false, false, [&] { v.clear(); });
                if (ok) {
                    m.clear();
                    moved[a] = false;
                    changed(a, sz);
                }
                return;
            }
            if (op == "resize" || op == "resize_val") {
                if (op == "resize_val" && !copyable) {
                    skip();
                    return;
                }
                if constexpr (etl::detail::is_movable_v<T>) {
                    size_t n = static_cast<size_t>(st.k[0] % (N + 1));
                    bool bad = false;
                    if (flt && misuse) {
                        n   = static_cast<size_t>(beyond(N + 1, st.flt));
                        bad = true;
                    }
                    bool const alias = op == "resize_val" && !bad && sz > 0 && st.k[1] % 4 == 0;
                    int val          = static_cast<int>(st.v[0]);
                    size_t aliasIdx  = 0;
                    if (alias) {
                        aliasIdx = static_cast<size_t>(st.k[2] % sz);
                        val      = m[aliasIdx];
                        SIM_COUNT("F6.aliasing_resize");
                    }
                    ctx.log.kv("n", static_cast<long long>(n));
                    ctx.log.kv("alias", alias);
                    T tmp = mk(val);
                    bool ok = call(a, bad, false, [&] {
                        if (op == "resize") {
                            v.resize(n);
                        } else {
                            if constexpr (copyable) {
                                v.resize(n, alias ? static_cast<T const&>(v[aliasIdx]) : static_cast<T const&>(tmp));
                            }
                        }
                    });
                    if (ok) {
                        m.resize(n, op == "resize" ? 0 : val);
                        if (n != sz) {
                            changed(a, sz);
                        }
                    }
                } else {
                    skip();
                }
                return;
            }
            if (op == "assign_n") {
                if constexpr (copyable) {
                    size_t n = static_cast<size_t>(st.k[0] % (N + 1));
                    bool bad = false;
                    if (flt && misuse) {
                        n   = static_cast<size_t>(beyond(N + 1, st.flt));
                        bad = true;
                    }
                    int const val = static_cast<int>(st.v[0]);
                    ctx.log.kv("n", static_cast<long long>(n));
                    ctx.log.kv("v", val);
                    T tmp   = mk(val);
                    bool ok = call(a, bad, false, [&] { v.assign(n, static_cast<T const&>(tmp)); });
                    if (ok) {
                        m.assign(n, val);
                        moved[a] = false;
                        changed(a, sz);
                    } else if (bad && moved[a]) {
                        // nothing to compare
                    }
                } else {
                    skip();
                }
                return;
            }
            if (op == "assign_range") {
                if constexpr (copyable) {
                    size_t n = static_cast<size_t>(st.k[0] % (N + 1));
                    bool bad = false;
                    bool reversed = false;
                    if (flt && misuse) {
                        bad = true;
                        if (st.flt == 3 && n > 0) {
                            reversed = true;
                        } else {
                            n = N + static_cast<size_t>(st.flt);
                        }
                    }
                    ctx.log.kv("n", static_cast<long long>(n));
                    ctx.log.kv("rev", reversed);
                    Range r(n, st);
                    bool ok = call(a, bad, false, [&] {
                        T const* f = reversed ? r.buf.end() : r.buf.begin();
                        T const* l = reversed ? r.buf.begin() : r.buf.end();
                        v.assign(f, l);
                    });
                    if (ok) {
                        m.clear();
                        for (size_t i = 0; i < n; ++i) {
                            m.push_back(r.value(i, st));
                        }
                        moved[a] = false;
                        changed(a, sz);
                    }
                } else {
                    skip();
                }
                return;
            }
            if (op == "swap") {
                if constexpr (etl::is_assignable_v<T&, T&>) { // swap is built on vector move assignment
                    if (obj[b] == nullptr || moved[a] || moved[b]) {
                        skip();
                        return;
                    }
                    ctx.log.kv("b", b);
                    if (a == b) {
                        SIM_COUNT("F6.self_swap");
                    }
                    bool ok = call(a, false, false, [&] {
                        if (st.k[0] % 2 == 0) {
                            v.swap(*obj[b]);
                        } else {
                            using etl::swap;
                            swap(v, *obj[b]);
                        }
                    });
                    if (ok) {
                        if (a != b) {
                            std::swap(model[a], model[b]);
                        }
                        ++ctx.stateChanging;
                        ++ctx.boundaryEvents; // cross-object step
                    } else {
                        resync(b);
                    }
                } else {
                    skip();
                }
                return;
            }
            if (op == "copy_assign") {
                if constexpr (copyable && etl::is_assignable_v<T&, T const&>) {
                    if (obj[b] == nullptr || moved[b]) {
                        skip();
                        return;
                    }
                    ctx.log.kv("b", b);
                    if (a == b) {
                        SIM_COUNT("F6.self_copy_assign");
                    }
                    bool ok = call(a, false, false, [&] { v = static_cast<Vec const&>(*obj[b]); });
                    if (ok) {
                        if (a != b) {
                            model[a] = model[b];
                        }
                        moved[a] = false;
                        changed(a, sz);
                        ++ctx.boundaryEvents;
                    }
                } else {
                    skip();
                }
                return;
            }
            if (op == "move_assign") {
                if constexpr (etl::is_assignable_v<T&, T&>) {
                    if (obj[b] == nullptr || moved[b]) {
                        skip();
                        return;
                    }
                    ctx.log.kv("b", b);
                    if (a == b) {
                        // F6: self-move-assignment through an alias leaves an unspecified value in std as well: the
                        // object is treated as moved-from afterwards (valid, size <= capacity, every live element
                        // inside [begin, end) and destroyed exactly once, assignable / clearable / destructible)
                        SIM_COUNT("F6.self_move_assign");
                        Vec& alias = *obj[b];
                        bool ok    = call(a, false, false, [&] { v = static_cast<Vec&&>(alias); });
                        if (ok) {
                            moved[a] = true;
                            ++ctx.boundaryEvents;
                        }
                        return;
                    }
                    bool ok = call(a, false, false, [&] { v = static_cast<Vec&&>(*obj[b]); });
                    if (ok) {
                        model[a] = model[b];
                        moved[a] = false;
                        moved[b] = true;
                        SIM_COUNT("F7.moved_from_created");
                        changed(a, sz);
                        ++ctx.boundaryEvents;
                    } else {
                        resync(b);
                    }
                } else {
                    skip();
                }
                return;
            }
            if (op == "recreate") {
                recreate(a, b, st);
                return;
            }
            if (op == "erase_value" || op == "erase_if") {
                if constexpr (etl::detail::is_movable_v<T>) {
                    int const val = static_cast<int>(st.v[0]);
                    ctx.log.kv("v", val);
                    size_t ret      = 0;
                    int predCalls   = 0;
                    int quota       = 0;
                    bool sawForeign = false;
                    if constexpr (std::is_same_v<T, int>) {
                        // the value argument of the free erase has its own type: it is compared with every element as
                        // it is (std::erase), never converted to the element type first
                        if (op == "erase_value" && st.k[0] % 3 == 0) {
                            bool const wide = st.k[1] % 2 == 0;
                            ctx.log.kv("hetero", wide ? 1 : 2);
                            bool ok2 = call(a, false, false, [&] {
                                ret = wide ? etl::erase(v, static_cast<long long>(val) + (1LL << 32)) : etl::erase(v, static_cast<double>(val) + 0.5);
                            });
                            if (ok2 && ret != 0) {
                                ctx.violation("C01", "diff:returned-count", "erase(v, value of another type) removed elements that do not compare equal to the value");
                            }
                            return;
                        }
                    }
                    bool ok    = call(a, false, false, [&] {
                        if (op == "erase_value") {
                            ret = etl::erase(v, mk(val));
                        } else if (st.k[0] % 3 == 1) {
                            // a predicate with state: it accepts only the first `quota` matching elements and counts
                            // its calls - every element is shown to it exactly once, in order, never in a moved-from state
                            // (the state lives outside the predicate: algorithms may copy their function objects)
                            quota = 1 + static_cast<int>(st.k[1] % 3);
                            int q = quota;
                            ret   = etl::erase_if(v, [val, &predCalls, &sawForeign, &q](T const& x) {
                                ++predCalls;
                                long long const xv = value_of(x);
                                sawForeign         = sawForeign || xv == kMovedFrom || xv == -4242 || xv == -9999;
                                if (xv % 2 == val % 2 && q > 0) {
                                    --q;
                                    return true;
                                }
                                return false;
                            });
                        } else {
                            ret = etl::erase_if(v, [val](T const& x) { return value_of(x) % 2 == val % 2; });
                        }
                    });
                    if (ok) {
                        size_t want = 0;
                        if (op == "erase_value") {
                            if constexpr (floating) {
                                double const dv = decode_float(val);
                                want            = static_cast<size_t>(std::erase_if(m, [dv](int c) { return decode_float(c) == dv; }));
                            } else {
                                want = static_cast<size_t>(std::erase(m, val));
                            }
                        } else if (quota != 0) {
                            size_t const before = m.size();
                            want                = static_cast<size_t>(std::erase_if(m, [val, q = quota](int x) mutable {
                                if (x % 2 == val % 2 && q > 0) {
                                    --q;
                                    return true;
                                }
                                return false;
                            }));
                            if (predCalls != static_cast<int>(before) || sawForeign) {
                                ctx.violation("C01", "diff:predicate-calls", "erase_if showed its predicate " + std::to_string(predCalls) + " elements for " + std::to_string(before) + (sawForeign ? " (one of them moved-from or destroyed)" : ""));
                            }
                        } else {
                            want = static_cast<size_t>(std::erase_if(m, [val](int x) { return x % 2 == val % 2; }));
                        }
                        if (ret != want) {
                            ctx.violation("C01", "diff:returned-count", "erase returned " + std::to_string(ret) + " want " + std::to_string(want));
                        }
                        if (want != 0) {
                            changed(a, sz);
                        }
                    }
                } else {
                    skip();
                }
                return;
            }
            if (op == "write") {
                if constexpr (etl::is_assignable_v<T&, T&&>) {
                    bool bad   = false;
                    size_t idx = sz == 0 ? 0 : static_cast<size_t>(st.k[0] % sz);
                    int const how = static_cast<int>(st.k[1] % 4);
                    if (flt && misuse) {
                        bad = true;
                        idx = static_cast<size_t>(beyond(sz, st.flt));
                    } else if (sz == 0) {
                        skip();
                        return;
                    }
                    int const val = static_cast<int>(st.v[0]);
                    ctx.log.kv("idx", static_cast<long long>(idx));
                    ctx.log.kv("how", how);
                    ctx.log.kv("v", val);
                    bool viaFront = !bad && how == 1;
                    bool viaBack  = !bad && how == 2;
                    bool viaIter  = !bad && how == 3;
                    if (bad && sz == 0 && st.flt == 1 && how != 0) {
                        viaFront = how == 1 || how == 3;
                        viaBack  = how == 2;
                    }
                    T wtmp = mk(val); // built before the call: no user code of the harness runs between the call and the handler
                    bool ok = call(a, bad, false, [&] {
                        if (viaFront) {
                            v.front() = static_cast<T&&>(wtmp);
                        } else if (viaBack) {
                            v.back() = static_cast<T&&>(wtmp);
                        } else if (viaIter) {
                            *(v.begin() + static_cast<long>(idx)) = static_cast<T&&>(wtmp);
                        } else {
                            v[idx] = static_cast<T&&>(wtmp);
                        }
                    });
                    if (ok) {
                        if (viaFront) {
                            m.front() = val;
                        } else if (viaBack) {
                            m.back() = val;
                        } else {
                            m[idx] = val;
                        }
                        ++ctx.stateChanging;
                    }
                } else {
                    skip();
                }
                return;
            }
            if (op == "read_oob") {
                // const access beyond the end: pure misuse
                if (!(flt && misuse)) {
                    skip();
                    return;
                }
                size_t idx = static_cast<size_t>(beyond(sz, st.flt));
                ctx.log.kv("idx", static_cast<long long>(idx));
                long long sink = 0;
                Vec const& cv  = v;
                int const how  = static_cast<int>(st.k[0] % 3);
                if (how != 0 && sz != 0) {
                    skip();
                    return;
                }
                call(a, true, false, [&] {
                    if (how == 1) {
                        sink = value_of(cv.front());
                    } else if (how == 2) {
                        sink = value_of(cv.back());
                    } else {
                        sink = value_of(cv[idx]);
                    }
                });
                (void)sink;
                return;
            }
            skip();
        }
    }

    // destroy slot a and construct it again through one of the constructor forms
    void recreate(int a, int b, Step const& st)
    {
        if constexpr (isStatic) {
            int form = static_cast<int>(st.k[0] % 7);
            ctx.log.kv("form", form);
            ctx.log.kv("b", b);
            if ((form == 4 || form == 5) && (a == b || obj[b] == nullptr || moved[b])) {
                form = 0;
            }
            if (!copyable && (form == 2 || form == 3 || form == 4)) {
                form = 0;
            }
            bool const flt = st.flt != 0 && misuse;
            size_t n       = static_cast<size_t>(st.k[1] % (N + 1));
            bool bad       = false;
            bool reversedCtor = false;
            if (flt && (form == 1 || form == 2 || form == 3)) {
                n   = form == 3 ? N + static_cast<size_t>(st.flt) : static_cast<size_t>(beyond(N + 1, st.flt));
                bad = true;
                if (form == 3 && st.flt == 3 && N != 0) {
                    reversedCtor = true; // (last, first): a negative distance
                    n            = 1 + static_cast<size_t>(st.k[1] % N);
                }
            }
            ctx.log.kv("n", static_cast<long long>(n));
            size_t const before = model[a].size();
            destroy(a);
            void* mem = raw(a);
            int const val = static_cast<int>(st.v[0]);
            T tmp         = mk(val);
            Range r(form == 3 ? n : 0, st);
            Vec* made = nullptr;
            // a trap while constructing abandons a partially built object: its elements are casualties of the
            // longjmp (no destructor can run), the slot is rebuilt with a default-constructed object afterwards
            ctx.stepClass     = bad ? 2 : 0;
            g_crash.stepClass = ctx.stepClass;
            if constexpr (watched) {
                reg().mark_harness_held();
            }
            auto out = guarded(true, [&] {
                switch (form) {
                case 1: made = new (mem) Vec(n); break;
                case 2:
                    if constexpr (copyable) {
                        made = new (mem) Vec(n, static_cast<T const&>(tmp));
                    }
                    break;
                case 3:
                    if constexpr (copyable) {
                        made = reversedCtor ? new (mem) Vec(static_cast<T const*>(r.buf.end()), static_cast<T const*>(r.buf.begin()))
                                            : new (mem) Vec(static_cast<T const*>(r.buf.begin()), static_cast<T const*>(r.buf.end()));
                    }
                    break;
                case 4:
                    if constexpr (copyable) {
                        if (st.k[2] % 3 == 0) {
                            // the copy travels through a real (non-inlined) function call by value and comes back by
                            // value: parameter and return objects must be built and ended by T's own special members
                            made = new (mem) Vec(through_a_call(static_cast<Vec const&>(*obj[b])));
                        } else {
                            made = new (mem) Vec(static_cast<Vec const&>(*obj[b]));
                        }
                    }
                    break;
                case 5: made = new (mem) Vec(static_cast<Vec&&>(*obj[b])); break;
                case 6: made = new (mem) Vec(etl::empty_c_array{}); break;
                default: made = ((plan.cfg.create >> a) & 1U) != 0 ? new (mem) Vec : new (mem) Vec{}; break;
                }
            });
            ctx.stepClass     = 0;
            g_crash.stepClass = 0;
            if (out == Outcome::trapped) {
                if constexpr (watched) {
                    reg().forgive_outside_arena();
                    reg().forget_range(slot_obj(a), slot_obj(a) + sizeof(Vec));
                }
                if (bad) {
                    ++ctx.faultsFired;
                    ++ctx.boundaryEvents;
                    SIM_COUNT("F2.trapped_by_handler");
                    count_dyn("guard." + trap_site());
                    ctx.log.s(" ->trap");
                    if (!trap_location_ok()) {
                        ctx.violation("C05", "contract:no-location", "handler entered without a usable file/line");
                    }
                } else {
                    ctx.violation("C05", "contract:spurious", "handler entered in a valid constructor at " + trap_site());
                }
                arena_retire(a);
                mem = raw(a);
                guarded(true, [&] { made = new (mem) Vec{}; });
                obj[a] = made;
                model[a].clear();
                moved[a] = false;
                return;
            }
            if (out == Outcome::alloc_tripped) {
                ctx.stop = true;
                return;
            }
            obj[a]   = made;
            moved[a] = false;
            if (bad) {
                ctx.violation("C05", "contract:not-entered", "constructor precondition violated but the handler was not entered");
                resync(a);
                return;
            }
            auto& m = model[a];
            m.clear();
            switch (form) {
            case 1: m.assign(n, 0); break;
            case 2: m.assign(n, val); break;
            case 3:
                for (size_t i = 0; i < n; ++i) {
                    m.push_back(r.value(i, st));
                }
                break;
            case 4: m = model[b]; break;
            case 5:
                m        = model[b];
                moved[b] = true;
                SIM_COUNT("F7.moved_from_created");
                break;
            default: break;
            }
            if (form == 4) {
                // a copy is independent of its source: mutate the copy, the source must not move
                SIM_COUNT("probe.copy_independence");
            }
            changed(a, before);
            ++ctx.boundaryEvents;
        }
    }

    // ================================================================ inplace_vector steps
    void step_inplace(Step const& st)
    {
        if constexpr (!isStatic) {
            int const a = static_cast<int>(st.a % static_cast<uint32_t>(pool));
            int const b = static_cast<int>(st.b % static_cast<uint32_t>(pool));
            auto const& name = find_op(st.op);
            begin_op(name, a);
            Vec& v          = *obj[a];
            auto& m         = model[a];
            size_t const sz = m.size();
            bool const flt  = st.flt != 0;
            std::string const op = name;
            count_dyn(std::string("op.") + name + ".sizeclass" + std::to_string(size_class(sz)));
            if (moved[a] && op != "clear" && op != "recreate") {
                skip();
                return;
            }
            if (moved[a]) {
                SIM_COUNT("F7.moved_from_reused");
            }
            int const val = static_cast<int>(st.v[0]);
            if (op == "try_push_back_copy" || op == "try_push_back_move" || op == "try_emplace_back") {
                if (op == "try_push_back_copy" && !copyable) {
                    skip();
                    return;
                }
                ctx.log.kv("v", val);
                T tmp  = mk(val);
                T* ret = nullptr;
                if (sz == N) {
                    this->answerProp = "C01";
                }
                bool ok = call(a, false, false, [&] {
                    if (op == "try_push_back_copy") {
                        if constexpr (copyable) {
                            ret = v.try_push_back(static_cast<T const&>(tmp));
                        }
                    } else if (op == "try_push_back_move") {
                        ret = v.try_push_back(static_cast<T&&>(tmp));
                    } else if (st.k[1] % 2 == 1) {
                        // emplace from an rvalue element: a refused call must leave the argument alone as well
                        ret = v.try_emplace_back(static_cast<T&&>(tmp));
                    } else {
                        ret = v.try_emplace_back(earg(val));
                    }
                });
                if (ok) {
                    if (sz == N) {
                        // F1: capacity exhausted. Must refuse with nullptr and change nothing (checked by observe_all),
                        // and must not have consumed the argument
                        ++ctx.faultsFired;
                        ++ctx.boundaryEvents;
                        SIM_COUNT("F1.refused_at_capacity");
                        ctx.log.s(" ->refused");
                        if (ret != nullptr) {
                            ctx.violation("C01", "refusal:non-null", "try_* on a full inplace_vector did not return nullptr");
                        }
                        if (value_of(tmp) != val) {
                            ctx.violation("C01", "refusal:argument-consumed", "a refused try_push_back moved from its argument");
                        }
                    } else {
                        m.push_back(val);
                        if constexpr (N != 0) {
                            if (ret != v.data() + sz) {
                                ctx.violation("C01", "diff:returned-pointer", "try_* did not return the address of the new last element");
                            }
                        }
                        changed(a, sz);
                    }
                }
                return;
            }
            if constexpr (N != 0) {
                if (op == "unchecked_push_back_copy" || op == "unchecked_push_back_move" || op == "unchecked_emplace_back") {
                    if (op == "unchecked_push_back_copy" && !copyable) {
                        skip();
                        return;
                    }
                    bool const full = sz == N;
                    if (full && !(flt && misuse)) {
                        skip();
                        return;
                    }
                    ctx.log.kv("v", val);
                    T tmp  = mk(val);
                    T* ret = nullptr;
                    bool ok = call(a, full, false, [&] {
                        if (op == "unchecked_push_back_copy") {
                            if constexpr (copyable) {
                                ret = &v.unchecked_push_back(static_cast<T const&>(tmp));
                            }
                        } else if (op == "unchecked_push_back_move") {
                            ret = &v.unchecked_push_back(static_cast<T&&>(tmp));
                        } else {
                            ret = &v.unchecked_emplace_back(earg(val));
                        }
                    });
                    if (ok) {
                        m.push_back(val);
                        if (ret != v.data() + sz) {
                            ctx.violation("C01", "diff:returned-reference", "unchecked_* did not return a reference to the new last element");
                        }
                        changed(a, sz);
                    }
                    return;
                }
                if (op == "pop_back") {
                    bool const empty = sz == 0;
                    if (empty && !(flt && misuse)) {
                        skip();
                        return;
                    }
                    bool ok = call(a, empty, false, [&] { v.pop_back(); });
                    if (ok) {
                        m.pop_back();
                        changed(a, sz);
                    }
                    return;
                }
                if (op == "write") {
                    if constexpr (etl::is_assignable_v<T&, T&&>) {
                        bool bad   = false;
                        size_t idx = sz == 0 ? 0 : static_cast<size_t>(st.k[0] % sz);
                        int const how = static_cast<int>(st.k[1] % 3);
                        if (flt && misuse) {
                            bad = true;
                            idx = static_cast<size_t>(beyond(sz, st.flt));
                            if (how != 0 && sz != 0) {
                                skip();
                                return;
                            }
                        } else if (sz == 0) {
                            skip();
                            return;
                        }
                        ctx.log.kv("idx", static_cast<long long>(idx));
                        ctx.log.kv("how", how);
                        ctx.log.kv("v", val);
                        T wtmp = mk(val); // built before the call: no user code of the harness runs between the call and the handler
                    bool ok = call(a, bad, false, [&] {
                            if (how == 1) {
                                v.front() = static_cast<T&&>(wtmp);
                            } else if (how == 2) {
                                v.back() = static_cast<T&&>(wtmp);
                            } else {
                                v[idx] = static_cast<T&&>(wtmp);
                            }
                        });
                        if (ok) {
                            if (how == 1) {
                                m.front() = val;
                            } else if (how == 2) {
                                m.back() = val;
                            } else {
                                m[idx] = val;
                            }
                            ++ctx.stateChanging;
                        }
                    } else {
                        skip();
                    }
                    return;
                }
                if (op == "read_oob") {
                    if (!(flt && misuse)) {
                        skip();
                        return;
                    }
                    size_t idx    = static_cast<size_t>(beyond(sz, st.flt));
                    int const how = static_cast<int>(st.k[0] % 3);
                    if (how != 0 && sz != 0) {
                        skip();
                        return;
                    }
                    ctx.log.kv("idx", static_cast<long long>(idx));
                    long long sink = 0;
                    Vec const& cv  = v;
                    call(a, true, false, [&] {
                        if (how == 1) {
                            sink = value_of(cv.front());
                        } else if (how == 2) {
                            sink = value_of(cv.back());
                        } else {
                            sink = value_of(cv[idx]);
                        }
                    });
                    (void)sink;
                    return;
                }
            }
            if (op == "fill_many") {
                // many valid appends in one step (inplace_vector has no bulk insertion): a loop of try_emplace_back calls
                // that takes the vector anywhere between its current size and its capacity
                size_t const n = static_cast<size_t>(st.k[0] % (N - sz + 1));
                int const val  = static_cast<int>(st.v[0]);
                ctx.log.kv("n", static_cast<long long>(n));
                bool ok = call(a, false, false, [&] {
                    for (size_t i = 0; i < n; ++i) {
                        (void)v.try_emplace_back(earg(val));
                    }
                });
                if (ok) {
                    m.insert(m.end(), n, val);
                    if (n != 0) {
                        changed(a, sz);
                    }
                } else {
                    resync(a);
                }
                return;
            }
            if (op == "clear") {
                bool ok = call(a, false, false, [&] { v.clear(); });
                if (ok) {
                    m.clear();
                    moved[a] = false;
                    changed(a, sz);
                }
                return;
            }
            if (op == "recreate") {
                if constexpr (N != 0) {
                    int form = static_cast<int>(st.k[0] % 3);
                    if ((form == 1 || form == 2) && (a == b || obj[b] == nullptr || moved[b])) {
                        form = 0;
                    }
                    if (form == 1 && !copyable) {
                        form = 0;
                    }
                    if (form == 2 && !etl::is_move_constructible_v<T>) {
                        form = 0;
                    }
                    ctx.log.kv("form", form);
                    ctx.log.kv("b", b);
                    destroy(a);
                    if (form == 0) {
                        create_default(a);
                    } else {
                        void* mem = raw(a);
                        bool ok   = call(a, false, false, [&] {
                            if (form == 1) {
                                if constexpr (copyable) {
                                    obj[a] = new (mem) Vec(static_cast<Vec const&>(*obj[b]));
                                }
                            } else {
                                obj[a] = new (mem) Vec(static_cast<Vec&&>(*obj[b]));
                            }
                        });
                        if (!ok) {
                            ctx.stop = true;
                            return;
                        }
                        model[a] = model[b];
                        moved[a] = false;
                        if (form == 2) {
                            // the standard leaves the source valid but unspecified; inplace_vector empties it
                            moved[b] = true;
                            SIM_COUNT("F7.moved_from_created");
                        }
                    }
                    changed(a, sz);
                    ++ctx.boundaryEvents;
                } else {
                    skip();
                }
                return;
            }
            skip();
        }
    }

    static auto ops() -> std::vector<OpDef> const&
    {
        static std::vector<OpDef> const staticOps = {
            {"push_back_copy", 10}, {"push_back_move", 8}, {"emplace_back", 8}, {"pop_back", 8},     {"insert_copy", 8},
            {"insert_move", 6},     {"emplace", 5},        {"insert_n", 6},     {"insert_range", 6}, {"move_insert", 4},
            {"erase_pos", 6},       {"erase_range", 6},    {"clear", 3},        {"resize", 4},       {"resize_val", 4},
            {"assign_n", 4},        {"assign_range", 4},   {"swap", 5},         {"copy_assign", 5},  {"move_assign", 4},
            {"recreate", 5},        {"erase_value", 3},    {"erase_if", 3},     {"write", 5},        {"read_oob", 2},
        };
        static std::vector<OpDef> const inplaceOps = {
            {"try_push_back_copy", 10},      {"try_push_back_move", 10},     {"try_emplace_back", 10}, {"unchecked_push_back_copy", 4},
            {"unchecked_push_back_move", 4}, {"unchecked_emplace_back", 4}, {"pop_back", 10},         {"clear", 3},
            {"recreate", 6},                 {"write", 5},                   {"read_oob", 2},                 {"fill_many", 4},
        };
        return isStatic ? staticOps : inplaceOps;
    }

    static auto find_op(int idx) -> char const* { return ops()[static_cast<size_t>(idx)].name; }
};

// ================================================================================================ stack
// stack<T, static_vector<T,N>>: LIFO adaptor without assignment operators (a declared move constructor deletes
// them). The whole content is observed by popping a copy.
template <typename T, size_t N>
struct StackDriver : DriverBase<StackDriver<T, N>> {
    using Base = DriverBase<StackDriver<T, N>>;
    using Base::begin_op;
    using Base::call;
    using Base::ctx;
    using Base::misuse;
    using Base::observe;
    using Base::plan;
    using Base::pool;
    using Base::skip;
    using C = etl::static_vector<T, N>;
    using S = etl::stack<T, C>;
    static constexpr bool tracked = is_tracked_v<T>;

    S* obj[3] = {nullptr, nullptr, nullptr};
    std::vector<int> model[3];
    bool moved[3] = {false, false, false};

    StackDriver(Plan const& p, Ctx& c)
        : Base(p, c)
    {
    }

    auto raw(int s) -> void* { return arena_prepare(s, sizeof(S), plan.cfg, static_cast<uint64_t>(ctx.step + 1), alignof(S)); }

    void destroy(int s)
    {
        if (obj[s] == nullptr) {
            return;
        }
        auto* lo = slot_obj(s);
        guarded(true, [&] { obj[s]->~S(); });
        if constexpr (tracked || std::is_same_v<T, sim::Nest>) {
            if (reg().live_in(lo, lo + sizeof(S)) != 0) {
                ctx.violation("C03", "lifetime:alive-after-owner-destroyed", "elements alive inside a destroyed stack");
                reg().forget_range(lo, lo + sizeof(S));
            }
        }
        if (!arena_guards_ok(s)) {
            ctx.violation("C02", "memory:guard-damaged", "guard bytes around the stack were overwritten");
        }
        arena_retire(s);
        obj[s] = nullptr;
    }

    void resync(int s)
    {
        if (obj[s] == nullptr || obj[s]->size() > N) {
            ctx.stop = true;
            return;
        }
        model[s].clear();
        void* mem = arena_prepare(kTemp, sizeof(S), plan.cfg, 4242, alignof(S));
        guarded(false, [&] {
            S* tmp = new (mem) S(static_cast<S const&>(*obj[s]));
            while (!tmp->empty()) {
                model[s].insert(model[s].begin(), static_cast<int>(value_of(tmp->top())));
                tmp->pop();
            }
            tmp->~S();
        });
        arena_retire(kTemp);
    }

    auto check_state(int s, char const* prop, char const* prefix) -> bool
    {
        bool mismatch = false;
        auto bad      = [&](char const* what, long long got, long long want) {
            mismatch = true;
            ctx.violation(prop, std::string(prefix) + ":" + what, std::string(what) + " got " + std::to_string(got) + " want " + std::to_string(want) + " (slot " + std::to_string(s) + ")");
        };
        std::vector<int> const& m = model[s];
        void* mem                 = arena_prepare(kTemp, sizeof(S), plan.cfg, 4243, alignof(S));
        bool ok                   = observe("stack", [&] {
            S const& cs = *obj[s];
            if (cs.size() > N) {
                bad("size>capacity", static_cast<long long>(cs.size()), static_cast<long long>(N));
                ctx.stop = true;
                return;
            }
            if (moved[s]) {
                return;
            }
            if (cs.size() != m.size() || cs.empty() != m.empty()) {
                bad("size", static_cast<long long>(cs.size()), static_cast<long long>(m.size()));
                return;
            }
            if (!m.empty() && (value_of(cs.top()) != m.back() || value_of(obj[s]->top()) != m.back())) {
                bad("top", value_of(cs.top()), m.back());
                return;
            }
            // the whole content, in LIFO order, through a copy
            S* tmp   = new (mem) S(cs);
            size_t i = m.size();
            while (!tmp->empty()) {
                if (i == 0 || value_of(tmp->top()) != m[--i]) {
                    bad("element", i == 0 ? -1 : value_of(tmp->top()), i == 0 ? -1 : m[i]);
                    break;
                }
                tmp->pop();
            }
            tmp->~S();
        });
        arena_retire(kTemp);
        if (!ok) {
            ctx.stop = true;
        }
        return !mismatch;
    }

    void observe_all()
    {
        static char const* const names[6] = {"==", "!=", "<", "<=", ">", ">="};
        uint64_t sh = hstr(plan.scenario.c_str());
        for (int s = 0; s < pool && !ctx.stop; ++s) {
            if (obj[s] == nullptr) {
                continue;
            }
            if (!check_state(s, "C01", "diff:stack")) {
                if (ctx.stop) {
                    break;
                }
                resync(s);
            }
            if constexpr (tracked) {
                auto* lo = slot_obj(s);
                if (!ctx.stop && reg().live_in(lo, lo + sizeof(S)) != obj[s]->size()) {
                    ctx.violation("C03", "lifetime:leak-inside-owner", "live elements inside the stack differ from size()");
                }
            }
            if (!arena_guards_ok(s)) {
                ctx.violation("C02", "memory:guard-damaged", "guard bytes around the stack were overwritten");
                arena_guards_repair(s);
            }
            uint64_t eh = model[s].size();
            for (int x : model[s]) {
                eh = mix64(eh ^ static_cast<uint64_t>(x));
            }
            ctx.log.s(" |");
            ctx.log.u(obj[s]->size());
            ctx.log.feed(moved[s] ? 0x77 : eh);
            sh = mix64(sh ^ eh ^ (static_cast<uint64_t>(s) << 56));
        }
        for (int x = 0; x < pool && !ctx.stop; ++x) {
            for (int y = 0; y < pool; ++y) {
                if (obj[x] == nullptr || obj[y] == nullptr || moved[x] || moved[y]) {
                    continue;
                }
                bool r[6]{};
                if (!observe("stack-relations", [&] {
                        S const& a = *obj[x];
                        S const& b = *obj[y];
                        r[0]       = a == b;
                        r[1]       = a != b;
                        r[2]       = a < b;
                        r[3]       = a <= b;
                        r[4]       = a > b;
                        r[5]       = a >= b;
                    })) {
                    return;
                }
                auto const ma   = VecDriver<C, T, N, VK::static_vec>::comparable(model[x]);
                auto const mb   = VecDriver<C, T, N, VK::static_vec>::comparable(model[y]);
                bool const w[6] = {ma == mb, ma != mb, ma < mb, ma <= mb, ma > mb, ma >= mb};
                for (int k = 0; k < 6; ++k) {
                    if (r[k] != w[k]) {
                        if (VecDriver<C, T, N, VK::static_vec>::known_partial_order_deviation(ctx, ma, mb, r)) {
                            break;
                        }
                        ctx.violation("C01", std::string("diff:stack:relational:") + names[k], "stack relation differs from std::stack over std::vector");
                        return;
                    }
                }
            }
        }
        if constexpr (tracked || std::is_same_v<T, sim::Nest>) {
            Base::temporaries_must_be_gone();
        }
        if (g_counting) {
            states().insert(sh);
            transitions().insert(mix64(sh ^ hstr(ctx.op)));
        }
    }

    void changed(size_t before, size_t after)
    {
        ++ctx.stateChanging;
        if ((after == N && before != N) || (after == 0 && before != 0)) {
            ++ctx.boundaryEvents;
        }
    }

    void step(Step const& st)
    {
        int const a      = static_cast<int>(st.a % static_cast<uint32_t>(pool));
        int const b      = static_cast<int>(st.b % static_cast<uint32_t>(pool));
        char const* name = ops()[static_cast<size_t>(st.op)].name;
        std::string const op = name;
        begin_op(name, a);
        S& v            = *obj[a];
        auto& m         = model[a];
        size_t const sz = m.size();
        int const val   = static_cast<int>(st.v[0]);
        bool const flt  = st.flt != 0 && misuse;
        ctx.log.kv("v", val);
        ctx.log.kv("b", b);
        if (moved[a] && op != "recreate") {
            skip();
            return;
        }
        if (op == "push_copy" || op == "push_move" || op == "emplace") {
            bool const full = sz == N;
            if (full && !flt) {
                skip();
                return;
            }
            T tmp = VecDriver<C, T, N, VK::static_vec>::mk(val);
            bool ok = call(a, full, false, [&] {
                if (op == "push_copy") {
                    v.push(static_cast<T const&>(tmp));
                } else if (op == "push_move") {
                    v.push(static_cast<T&&>(tmp));
                } else {
                    v.emplace(VecDriver<C, T, N, VK::static_vec>::earg(val)); // in-place construction from the argument
                }
            });
            if (ok) {
                m.push_back(val);
                changed(sz, sz + 1);
            }
            return;
        }
        if (op == "pop") {
            bool const empty = sz == 0;
            if (empty && !flt) {
                skip();
                return;
            }
            bool ok = call(a, empty, false, [&] { v.pop(); });
            if (ok) {
                m.pop_back();
                changed(sz, sz - 1);
            }
            return;
        }
        if (op == "top_write") {
            bool const empty = sz == 0;
            if (empty && !flt) {
                skip();
                return;
            }
            T wtmp  = VecDriver<C, T, N, VK::static_vec>::mk(val);
            bool ok = call(a, empty, false, [&] { v.top() = static_cast<T&&>(wtmp); });
            if (ok) {
                m.back() = val;
                ++ctx.stateChanging;
            }
            return;
        }
        if (op == "swap") {
            if (obj[b] == nullptr || moved[b]) {
                skip();
                return;
            }
            if (a == b) {
                SIM_COUNT("F6.self_swap");
            }
            bool ok = call(a, false, false, [&] {
                if (st.k[0] % 2 == 0) {
                    v.swap(*obj[b]);
                } else {
                    using etl::swap;
                    swap(v, *obj[b]);
                }
            });
            if (ok) {
                if (a != b) {
                    std::swap(model[a], model[b]);
                    ++ctx.boundaryEvents;
                }
                ++ctx.stateChanging;
            } else {
                resync(b);
            }
            return;
        }
        if (op == "recreate") {
            int form = static_cast<int>(st.k[0] % 5);
            if ((form == 3 || form == 4) && (a == b || obj[b] == nullptr || moved[b])) {
                form = 0;
            }
            size_t const n = static_cast<size_t>(st.k[1] % (N + 1));
            ctx.log.kv("form", form);
            ctx.log.kv("n", static_cast<long long>(n));
            destroy(a);
            void* mem = raw(a);
            S* made   = nullptr;
            bool ok   = call(-1, false, false, [&] {
                switch (form) {
                case 1: { // from a container, copied
                    C c;
                    for (size_t i = 0; i < n; ++i) {
                        c.push_back(VecDriver<C, T, N, VK::static_vec>::mk((st.v[i % 4] + static_cast<int64_t>(i)) % 8));
                    }
                    made = new (mem) S(static_cast<C const&>(c));
                    break;
                }
                case 2: { // from a container, moved
                    C c;
                    for (size_t i = 0; i < n; ++i) {
                        c.push_back(VecDriver<C, T, N, VK::static_vec>::mk((st.v[i % 4] + static_cast<int64_t>(i)) % 8));
                    }
                    made = new (mem) S(static_cast<C&&>(c));
                    break;
                }
                case 3: made = new (mem) S(static_cast<S const&>(*obj[b])); break;
                case 4: made = new (mem) S(static_cast<S&&>(*obj[b])); break;
                default: made = new (mem) S(); break;
                }
            });
            if (!ok) {
                ctx.stop = true;
                return;
            }
            obj[a]   = made;
            moved[a] = false;
            m.clear();
            if (form == 1 || form == 2) {
                for (size_t i = 0; i < n; ++i) {
                    m.push_back(static_cast<int>((st.v[i % 4] + static_cast<int64_t>(i)) % 8));
                }
            } else if (form == 3) {
                m = model[b];
            } else if (form == 4) {
                m        = model[b];
                moved[b] = true;
                SIM_COUNT("F7.moved_from_created");
            }
            changed(sz, m.size());
            ++ctx.boundaryEvents;
            return;
        }
        skip();
    }

    void run()
    {
        ctx.step = -1;
        ctx.op   = "create";
        for (int s = 0; s < pool; ++s) {
            void* mem = raw(s);
            guarded(true, [&] { obj[s] = new (mem) S(); });
        }
        observe_all();
        ctx.log.nl();
        for (size_t i = 0; i < plan.steps.size() && !ctx.stop; ++i) {
            ctx.step     = static_cast<int>(i);
            g_crash.step = ctx.step;
            step(plan.steps[i]);
            if (ctx.stop) {
                break;
            }
            observe_all();
            ctx.log.nl();
        }
        ctx.op = "destroy";
        if (ctx.stop) {
            reg().reset();
            return;
        }
        for (int s = 0; s < pool; ++s) {
            destroy(s);
        }
    }

    static auto ops() -> std::vector<OpDef> const&
    {
        static std::vector<OpDef> const o = {{"push_copy", 10}, {"push_move", 8}, {"emplace", 8}, {"pop", 10}, {"top_write", 4}, {"swap", 5}, {"recreate", 6}};
        return o;
    }
};

#if defined(__cpp_exceptions)
// ================================================================================================ failing element code
// F8: foreign code that FAILS inside a library call. The element's copy / move constructor throws when a fuse burns
// down - the k-th element of a copy cannot be made. inplace_vector builds its copies with uninitialized_copy / _move,
// which promise to destroy what they had built before the exception leaves: nothing of the half-built copy may stay
// alive, nothing may be destroyed that was never constructed, and the source must be untouched (copy) or still valid
// (move).
inline int g_fuse = -1; // -1: never; k: the (k+1)-th copy / move construction from now on throws

struct Fuse {
    Fuse() = default;

    Fuse(Fuse const& /*o*/) { burn(); }

    Fuse(Fuse&& /*o*/) { burn(); } // NOLINT: deliberately not noexcept

    auto operator=(Fuse const&) -> Fuse& = default;
    auto operator=(Fuse&&) -> Fuse&      = default;

    static void burn()
    {
        if (g_fuse == 0) {
            g_fuse = -1;
            LibPause pause; // the exception object is allocated by the element (foreign code), not by the library
            throw 7;
        }
        if (g_fuse > 0) {
            --g_fuse;
        }
    }
};

struct Thrower {
    Fuse fuse; // first member: it throws before the instrumented part is constructed
    Tracked t;

    Thrower(int x) // NOLINT
        : t(x)
    {
    }
};

struct ThrowDriver : DriverBase<ThrowDriver> {
    using Base = DriverBase<ThrowDriver>;
    static constexpr size_t N = 4;
    using IV = etl::inplace_vector<Thrower, N>;

    IV* obj[2] = {nullptr, nullptr};
    std::vector<int> model[2];

    ThrowDriver(Plan const& p, Ctx& c)
        : Base(p, c)
    {
    }

    void resync(int s)
    {
        model[s].clear();
        guarded(false, [&] {
            for (auto const& e : *obj[s]) {
                model[s].push_back(e.t.v);
            }
        });
    }

    auto check_state(int s, char const* prop, char const* prefix) -> bool
    {
        std::vector<int> got;
        observe("inplace_vector<Thrower>", [&] {
            for (auto const& e : *obj[s]) {
                got.push_back(e.t.v);
            }
        });
        if (got != model[s]) {
            ctx.violation(prop, std::string(prefix) + ":content", "content differs from the model after a failed element construction (slot " + std::to_string(s) + ")");
            return false;
        }
        return true;
    }

    void fresh(int s, uint64_t salt)
    {
        obj[s] = new (arena_prepare(s, sizeof(IV), plan.cfg, salt, alignof(IV))) IV{};
        model[s].clear();
    }

    void destroy(int s)
    {
        guarded(true, [&] { obj[s]->~IV(); });
        auto* lo = slot_obj(s);
        if (reg().live_in(lo, lo + sizeof(IV)) != 0) {
            ctx.violation("C03", "lifetime:alive-after-owner-destroyed", "elements alive inside a destroyed inplace_vector");
            reg().forget_range(lo, lo + sizeof(IV));
        }
        arena_retire(s);
        obj[s] = nullptr;
    }

    void step(Step const& st)
    {
        int const a      = static_cast<int>(st.a % 2);
        int const b      = 1 - a;
        char const* name = ops()[static_cast<size_t>(st.op)].name;
        std::string const op = name;
        begin_op(name, a);
        int const val = static_cast<int>(static_cast<uint64_t>(st.v[0]) % 8);
        IV& v         = *obj[a];
        if (op == "push") {
            if (model[a].size() == N) {
                skip();
                return;
            }
            if (call(a, false, false, [&] { (void)v.try_emplace_back(val); })) {
                model[a].push_back(val);
                ++ctx.stateChanging;
            }
            return;
        }
        if (op == "pop") {
            if (model[a].empty()) {
                skip();
                return;
            }
            if (call(a, false, false, [&] { v.pop_back(); })) {
                model[a].pop_back();
                ++ctx.stateChanging;
            }
            return;
        }
        if (op == "push_failing") {
            // one append whose element constructor throws: like std::vector, the vector is left exactly as it was
            if (model[a].size() == N) {
                skip();
                return;
            }
            int const how = static_cast<int>(st.k[0] % 4);
            ctx.log.kv("how", how);
            Thrower tmp(val);
            bool threw = false;
            g_fuse     = 0;
            reg().mark_harness_held();
            auto out = guarded(true, [&] {
                try {
                    switch (how) {
                    case 0: (void)v.try_push_back(static_cast<Thrower const&>(tmp)); break;
                    case 1: (void)v.try_push_back(static_cast<Thrower&&>(tmp)); break;
                    case 2: (void)v.unchecked_push_back(static_cast<Thrower const&>(tmp)); break;
                    default: (void)v.try_emplace_back(static_cast<Thrower const&>(tmp)); break;
                    }
                } catch (int) {
                    threw = true;
                }
            });
            g_fuse = -1;
            if (out != Outcome::completed) {
                ctx.violation("C05", "contract:spurious", "handler entered in an append at " + trap_site());
                ctx.stop = true;
                return;
            }
            ++ctx.faultsFired;
            ++ctx.boundaryEvents;
            SIM_COUNT("F8.element_constructor_failed_in_append");
            if (!threw) {
                ctx.violation("C03", "lifetime:exception-swallowed", "an exception thrown by the element constructor did not leave the append");
            }
            return; // the per-step observation checks that size, content and live elements are unchanged
        }
        // rebuild b as a copy of / by moving from a; the fuse decides whether and where an element fails
        bool const move    = op == "move_construct";
        size_t const sz    = model[a].size();
        bool const failing = sz != 0 && st.flt != 0;
        int const fuse     = failing ? static_cast<int>(st.k[0] % sz) : -1;
        ctx.log.kv("fuse", fuse);
        destroy(b);
        void* mem  = arena_prepare(b, sizeof(IV), plan.cfg, static_cast<uint64_t>(ctx.step) + 11, alignof(IV));
        IV* made   = nullptr;
        bool threw = false;
        g_fuse     = fuse;
        reg().mark_harness_held();
        auto out = guarded(true, [&] {
            try {
                if (move) {
                    made = new (mem) IV(static_cast<IV&&>(v));
                } else {
                    made = new (mem) IV(static_cast<IV const&>(v));
                }
            } catch (int) {
                threw = true;
            }
        });
        g_fuse = -1;
        if (out != Outcome::completed) {
            ctx.violation("C05", "contract:spurious", "handler entered in a copy / move construction at " + trap_site());
            ctx.stop = true;
            return;
        }
        if (failing) {
            ++ctx.faultsFired;
            ++ctx.boundaryEvents;
            SIM_COUNT("F8.element_constructor_failed");
            ctx.log.s(" ->threw");
            if (!threw) {
                ctx.violation("C03", "lifetime:exception-swallowed", "an exception thrown by an element constructor did not leave the copy / move constructor");
            }
            // nothing of the half-built object may be alive, whatever had been built was destroyed exactly once (registry)
            auto* lo = static_cast<unsigned char*>(mem);
            if (reg().live_in(lo, lo + sizeof(IV)) != 0) {
                ctx.violation("C03", "lifetime:leak-after-failed-construction", "elements of a half-built copy are still alive after the exception left the constructor");
                reg().forget_range(lo, lo + sizeof(IV));
            }
            if (!arena_guards_ok(b)) {
                ctx.violation("C02", "memory:guard-damaged", "a failed construction wrote outside the object");
                arena_guards_repair(b);
            }
            arena_retire(b);
            fresh(b, static_cast<uint64_t>(ctx.step) + 12);
            if (move) {
                // the source of a failed move is valid but unspecified: it must still be destructible; rebuild it
                destroy(a);
                fresh(a, static_cast<uint64_t>(ctx.step) + 13);
            }
            return;
        }
        obj[b]   = made;
        model[b] = model[a];
        if (move) {
            destroy(a);
            fresh(a, static_cast<uint64_t>(ctx.step) + 14);
        }
        ++ctx.stateChanging;
    }

    void run()
    {
        fresh(0, 1);
        fresh(1, 2);
        for (size_t i = 0; i < plan.steps.size() && !ctx.stop; ++i) {
            ctx.step     = static_cast<int>(i);
            g_crash.step = ctx.step;
            g_fuse       = -1;
            step(plan.steps[i]);
            uint64_t sh = hstr(plan.scenario.c_str());
            for (int s = 0; s < 2 && !ctx.stop; ++s) {
                if (!check_state(s, "C01", "diff")) {
                    resync(s);
                }
                auto* lo = slot_obj(s);
                if (reg().live_in(lo, lo + sizeof(IV)) != model[s].size()) {
                    ctx.violation("C03", "lifetime:leak-inside-owner", "live elements inside the inplace_vector differ from its size");
                    reg().forget_range(lo, lo + sizeof(IV));
                    ctx.stop = true;
                }
                uint64_t eh = model[s].size();
                for (int x : model[s]) {
                    eh = mix64(eh ^ static_cast<uint64_t>(x));
                }
                ctx.log.feed(eh);
                sh = mix64(sh ^ eh ^ (static_cast<uint64_t>(s) << 56));
            }
            Base::temporaries_must_be_gone();
            if (g_counting) {
                states().insert(sh);
                transitions().insert(mix64(sh ^ hstr(ctx.op)));
            }
            ctx.log.nl();
        }
        g_fuse = -1;
        if (ctx.stop) {
            reg().reset();
            return;
        }
        destroy(0);
        destroy(1);
    }

    static auto ops() -> std::vector<OpDef> const&
    {
        static std::vector<OpDef> const o = {{"push", 10}, {"pop", 3}, {"copy_construct", 6}, {"move_construct", 4}, {"push_failing", 5}};
        return o;
    }
};

#endif // __cpp_exceptions

// ================================================================================================ emplace arguments
// emplace(pos, args...), emplace_back(args...), try_emplace_back(args...) construct T(args...) - with parentheses, like
// std::vector. BagKey(a, b) and BagKey{a, b} are different values.
template <bool Static>
struct BagVecDriver : DriverBase<BagVecDriver<Static>> {
    using Base = DriverBase<BagVecDriver<Static>>;
    using Base::begin_op;
    using Base::call;
    using Base::ctx;
    using Base::observe;
    using Base::plan;
    using Base::skip;
    static constexpr size_t N = 4;
    using Vec = std::conditional_t<Static, etl::static_vector<BagKey, N>, etl::inplace_vector<BagKey, N>>;

    Vec* obj = nullptr;
    std::vector<BagKey> model;

    BagVecDriver(Plan const& p, Ctx& c)
        : Base(p, c)
    {
    }

    void resync(int)
    {
        guarded(false, [&] { model.assign(obj->begin(), obj->end()); });
    }

    auto check_state(int, char const* prop, char const* prefix) -> bool
    {
        bool same = true;
        observe("vector<BagKey>", [&] {
            same = obj->size() == model.size();
            for (size_t i = 0; same && i < model.size(); ++i) {
                same = (*obj)[i] == model[i];
            }
        });
        if (!same) {
            ctx.violation(prop, std::string(prefix) + ":elements", "the vector does not hold the elements std::vector holds after the same emplace calls");
        }
        return same;
    }

    void run()
    {
        obj = new (arena_prepare(0, sizeof(Vec), plan.cfg, 1, alignof(Vec))) Vec{};
        for (size_t i = 0; i < plan.steps.size() && !ctx.stop; ++i) {
            Step const& st = plan.steps[i];
            ctx.step       = static_cast<int>(i);
            g_crash.step   = ctx.step;
            char const* name = ops()[static_cast<size_t>(st.op)].name;
            std::string const op = name;
            begin_op(name, 0);
            int const x = static_cast<int>(static_cast<uint64_t>(st.v[0]) % 4);
            int const y = static_cast<int>(static_cast<uint64_t>(st.v[1]) % 4);
            size_t const pos = static_cast<size_t>(st.k[0] % (model.size() + 1));
            ctx.log.kv("x", x);
            ctx.log.kv("y", y);
            ctx.log.kv("pos", static_cast<long long>(pos));
            Vec& v = *obj;
            if (op == "pop") {
                if (model.empty()) {
                    skip();
                } else if (call(0, false, false, [&] { v.pop_back(); })) {
                    model.pop_back();
                }
            } else if (model.size() == N) {
                skip();
            } else if (op == "emplace2") {
                if constexpr (Static) {
                    if (call(0, false, false, [&] { v.emplace(v.begin() + static_cast<long>(pos), x, y); })) {
                        model.emplace(model.begin() + static_cast<long>(pos), x, y);
                    }
                } else {
                    if (call(0, false, false, [&] { (void)v.try_emplace_back(x, y); })) {
                        model.emplace_back(x, y);
                    }
                }
            } else if (op == "emplace1") {
                if constexpr (Static) {
                    if (call(0, false, false, [&] { v.emplace(v.begin() + static_cast<long>(pos), x); })) {
                        model.emplace(model.begin() + static_cast<long>(pos), x);
                    }
                } else {
                    if (call(0, false, false, [&] { (void)v.unchecked_emplace_back(x); })) {
                        model.emplace_back(x);
                    }
                }
            } else {
                if (call(0, false, false, [&] {
                        if constexpr (Static) {
                            v.emplace_back(x, y);
                        } else {
                            (void)v.unchecked_emplace_back(x, y);
                        }
                    })) {
                    model.emplace_back(x, y);
                }
            }
            if (!check_state(0, "C01", "diff:emplace-arguments")) {
                resync(0);
            }
            if (!arena_guards_ok(0)) {
                ctx.violation("C02", "memory:guard-damaged", "guard bytes around the vector were overwritten");
                arena_guards_repair(0);
            }
            uint64_t eh = model.size();
            for (auto const& k : model) {
                eh = mix64(eh ^ static_cast<uint64_t>(k.code()));
            }
            ctx.log.feed(eh);
            if (g_counting) {
                states().insert(mix64(eh ^ hstr(plan.scenario.c_str())));
                transitions().insert(mix64(eh ^ hstr(ctx.op)));
            }
            ++ctx.stateChanging;
            if (model.size() == N || model.empty()) {
                ++ctx.boundaryEvents;
            }
            ctx.log.nl();
        }
        guarded(true, [&] { obj->~Vec(); });
        arena_retire(0);
    }

    static auto ops() -> std::vector<OpDef> const&
    {
        static std::vector<OpDef> const o = {{"emplace2", 8}, {"emplace1", 5}, {"emplace_back2", 5}, {"pop", 4}};
        return o;
    }
};

template <typename T, size_t N>
void add_stack(char const* tname)
{
    using D = StackDriver<T, N>;
    Scenario s;
    s.family = "vec";
    s.name   = std::string("stack<") + tname + ",static_vector<" + tname + "," + std::to_string(N) + ">>";
    s.ops    = D::ops();
    s.props  = {"C01", "C02", "C05"};
    if (is_tracked_v<T> || std::is_same_v<T, sim::Nest>) {
        s.props.emplace_back("C03");
    }
    s.run = [](Plan const& p, Ctx& c) {
        D d(p, c);
        d.run();
    };
    registry().push_back(std::move(s));
}

template <typename T, size_t N>
void add_static(char const* tname)
{
    using Vec = etl::static_vector<T, N>;
    using D   = VecDriver<Vec, T, N, VK::static_vec>;
    Scenario s;
    s.family = "vec";
    s.name   = std::string("static_vector<") + tname + "," + std::to_string(N) + ">";
    s.ops    = D::ops();
    s.props  = {"C01", "C02", "C03", "C05"};
    if (!is_tracked_v<T> && !std::is_same_v<T, sim::Nest>) {
        s.props = {"C01", "C02", "C05"};
    }
    s.maxSteps = N >= 40 ? 60 : 40;
    s.run      = [](Plan const& p, Ctx& c) {
        D d(p, c);
        d.run();
    };
    registry().push_back(std::move(s));
}

template <typename T, size_t N>
void add_inplace(char const* tname)
{
    using Vec = etl::inplace_vector<T, N>;
    using D   = VecDriver<Vec, T, N, VK::inplace_vec>;
    Scenario s;
    s.family = "vec";
    s.name   = std::string("inplace_vector<") + tname + "," + std::to_string(N) + ">";
    s.ops    = D::ops();
    s.props  = {"C01", "C02", "C03", "C05"};
    if (!is_tracked_v<T> && !std::is_same_v<T, sim::Nest>) {
        s.props = {"C01", "C02", "C05"};
    }
    s.run = [](Plan const& p, Ctx& c) {
        D d(p, c);
        d.run();
    };
    registry().push_back(std::move(s));
}

template <typename T>
void add_all(char const* tname)
{
    add_static<T, 0>(tname);
    add_static<T, 1>(tname);
    add_static<T, 2>(tname);
    add_static<T, 3>(tname);
    add_static<T, 4>(tname);
    add_static<T, 8>(tname);
    add_static<T, 40>(tname); // between the word sizes 32 and 64
    add_static<T, 64>(tname);
    add_static<T, 254>(tname);
    add_static<T, 255>(tname);
    add_static<T, 256>(tname);
    add_inplace<T, 0>(tname);
    add_inplace<T, 1>(tname);
    add_inplace<T, 2>(tname);
    add_inplace<T, 4>(tname);
    add_inplace<T, 40>(tname);
    add_inplace<T, 254>(tname); // the largest capacity whose size still lives in one byte
    add_inplace<T, 255>(tname);
    add_inplace<T, 256>(tname);
}

} // namespace

// The family is compiled as several translation units (one per element type) that are linked together.
void register_vec_0();
void register_vec_1();
void register_vec_2();
void register_vec_3();

#if SIM_PART == 0
void register_vec_0()
{
    add_all<int>("int");
    add_stack<int, 1>("int");
    add_stack<int, 3>("int");
    add_stack<int, 255>("int");
    // floating-point elements: -0.0 and NaN make value equality differ from representation equality
    add_static<double, 4>("double");
    add_static<double, 9>("double");
    add_inplace<double, 4>("double");
    add_stack<double, 3>("double");
    // operator< coarser than operator==: ties of the lexicographic comparison are decided by < alone
    // not trivially copyable although trivially default-constructible and trivially destructible (shadow-checked)
    add_static<sim::Sealed, 4>("Sealed");
    add_static<sim::Sealed, 8>("Sealed");
    add_inplace<sim::Sealed, 4>("Sealed");
    // one-byte trivial elements (byte-wise bulk paths)
    add_static<unsigned char, 5>("uchar");
    add_static<unsigned char, 8>("uchar");
    add_inplace<unsigned char, 5>("uchar");
    add_static<sim::Coarse, 4>("Coarse");
    add_inplace<sim::Coarse, 4>("Coarse");
    add_stack<sim::Coarse, 3>("Coarse");
    // elements that own library objects themselves (a static_vector, an optional, a string): the outer algorithms drive
    // the inner special members; the registry and the teardown check watch the instrumented parts
#if defined(__clang__)
    // clang 14 cannot compile a static_vector whose element type contains a static_vector; the scenarios are registered
    // as empty placeholders so that both compilers map the same seed to the same scenario
    for (char const* name : {"static_vector<Nest,3>", "static_vector<Nest,8>", "inplace_vector<Nest,3>", "stack<Nest,static_vector<Nest,2>>"}) {
        Scenario s;
        s.family          = "vec";
        s.name            = name;
        s.ops             = {{"noop", 1}};
        s.props           = {"C01", "C02", "C03", "C05"};
        s.compilerNeutral = false;
        s.run             = [](Plan const&, Ctx&) { };
        registry().push_back(std::move(s));
    }
#else
    add_static<sim::Nest, 3>("Nest");
    add_static<sim::Nest, 8>("Nest");
    add_inplace<sim::Nest, 3>("Nest");
    add_stack<sim::Nest, 2>("Nest");
    for (auto& s : registry()) {
        if (s.name.find("Nest") != std::string::npos) {
            s.compilerNeutral = false;
        }
    }
#endif
}

auto main(int argc, char** argv) -> int
{
    register_vec_0();
    register_vec_1();
    register_vec_2();
    register_vec_3();
    return sim::worker_main(argc, argv);
}
#elif SIM_PART == 1
void register_vec_1()
{
    add_all<sim::Tracked>("Tracked");
    add_stack<sim::Tracked, 2>("Tracked");
    add_stack<sim::Tracked, 4>("Tracked");
    // defaulted (trivial) assignment with tracked construction / destruction
    add_static<sim::TrackedDA, 4>("TrackedDA");
    add_inplace<sim::TrackedDA, 2>("TrackedDA");
    add_inplace<sim::TrackedDA, 4>("TrackedDA");
    // over-aligned elements (alignas(32)): the storage must be aligned for them and the element stride is 32 bytes
    add_static<sim::TrackedOA, 3>("TrackedOA");
    add_inplace<sim::TrackedOA, 2>("TrackedOA");
    add_stack<sim::TrackedOA, 2>("TrackedOA");
    {
        Scenario s;
        s.family   = "vec";
        s.name     = "inplace_vector<Thrower,4>";
        s.props    = {"C01", "C03", "C02"};
        s.maxSteps = 30;
#if defined(__cpp_exceptions)
        s.ops = ThrowDriver::ops();
        s.run = [](Plan const& p, Ctx& c) {
            ThrowDriver d(p, c);
            d.run();
        };
#else
        // a build without exceptions has no failing constructors to inject: empty placeholder (same scenario table)
        s.ops = {{"noop", 1}};
        s.run = [](Plan const&, Ctx&) { };
#endif
        registry().push_back(std::move(s));
    }
    {
        Scenario s;
        s.family   = "vec";
        s.name     = "static_vector<BagKey,4>";
        s.ops      = BagVecDriver<true>::ops();
        s.props    = {"C01", "C02"};
        s.maxSteps = 20;
        s.run      = [](Plan const& p, Ctx& c) {
            BagVecDriver<true> d(p, c);
            d.run();
        };
        registry().push_back(std::move(s));
    }
    {
        Scenario s;
        s.family   = "vec";
        s.name     = "inplace_vector<BagKey,4>";
        s.ops      = BagVecDriver<false>::ops();
        s.props    = {"C01", "C02"};
        s.maxSteps = 20;
        s.run      = [](Plan const& p, Ctx& c) {
            BagVecDriver<false> d(p, c);
            d.run();
        };
        registry().push_back(std::move(s));
    }
}
#elif SIM_PART == 2
void register_vec_2() { add_all<sim::TrackedMoveOnly>("TrackedMoveOnly"); }
#elif SIM_PART == 3
void register_vec_3() { add_all<sim::TrackedCopyOnly>("TrackedCopyOnly"); }
#endif
