// Family `bits`: bitset / basic_bitset histories against std::bitset.
// Oracles: differential after every step incl. the observers that would reveal dirty padding bits (C17),
// contract (C05: position >= size, string longer than the width), memory (C02).
#include <etl/bitset.hpp>
#include <etl/string.hpp>
#include <etl/string_view.hpp>

#if !defined(SIM_PART)
    #define SIM_PART 0
#endif
#if SIM_PART == 0
    #define SIM_MAIN_TU 1
#endif
#include "../sim/driver.hpp"
#include "../sim/worker.hpp"

#include <bitset>
#include <string>

namespace {

using namespace sim;

// character traits whose eq() is not operator==: the string constructors must compare through the traits
inline constexpr auto fold_char(char c) noexcept -> char { return (c >= 'A' && c <= 'Z') ? static_cast<char>(c - 'A' + 'a') : c; }

struct FoldTraits : etl::char_traits<char> {
    static constexpr auto eq(char a, char b) noexcept -> bool { return fold_char(a) == fold_char(b); }

    static constexpr auto lt(char a, char b) noexcept -> bool { return fold_char(a) < fold_char(b); }
};

struct StdFoldTraits : std::char_traits<char> {
    static constexpr auto eq(char a, char b) noexcept -> bool { return fold_char(a) == fold_char(b); }

    static constexpr auto lt(char a, char b) noexcept -> bool { return fold_char(a) < fold_char(b); }
};

template <typename B, size_t W, bool IsBitset>
struct BitsDriver : DriverBase<BitsDriver<B, W, IsBitset>> {
    using Base = DriverBase<BitsDriver<B, W, IsBitset>>;
    using Base::begin_op;
    using Base::call;
    using Base::ctx;
    using Base::misuse;
    using Base::observe;
    using Base::plan;
    using Base::pool;
    using Base::skip;
    using M = std::bitset<W>;

    B* obj[3] = {nullptr, nullptr, nullptr};
    M model[3];

    BitsDriver(Plan const& p, Ctx& c)
        : Base(p, c)
    {
    }

    auto raw(int s) -> void* { return arena_prepare(s, sizeof(B), plan.cfg, static_cast<uint64_t>(ctx.step + 1), alignof(B)); }

    void create_default(int s)
    {
        bool const defaultInit = ((plan.cfg.create >> s) & 1U) != 0;
        void* mem              = raw(s);
        guarded(true, [&] {
            if (defaultInit) {
                obj[s] = new (mem) B;
            } else {
                obj[s] = new (mem) B{};
            }
        });
        SIM_COUNT("F3.created_in_dirty_memory");
        model[s].reset();
    }

    void destroy(int s)
    {
        if (obj[s] == nullptr) {
            return;
        }
        obj[s]->~B();
        if (!arena_guards_ok(s)) {
            ctx.violation("C02", "memory:guard-damaged", "guard bytes around the bitset were overwritten");
        }
        arena_retire(s);
        obj[s] = nullptr;
    }

    static auto test_of(B const& b, size_t p) -> bool
    {
        if constexpr (IsBitset) {
            return b.test(p);
        } else {
            return b.unchecked_test(p);
        }
    }

    void resync(int s)
    {
        if (obj[s] == nullptr) {
            return;
        }
        guarded(false, [&] {
            for (size_t i = 0; i < W; ++i) {
                model[s][i] = test_of(*obj[s], i);
            }
        });
    }

    auto check_state(int s, char const* prop, char const* prefix) -> bool
    {
        B& v          = *obj[s];
        M const& m    = model[s];
        bool mismatch = false;
        auto bad      = [&](char const* what, long long got, long long want) {
            mismatch = true;
            ctx.violation(prop, std::string(prefix) + ":" + what, std::string(what) + " got " + std::to_string(got) + " want " + std::to_string(want) + " (slot " + std::to_string(s) + ")");
        };
        bool ok = observe("bitset", [&] {
            B const& cv = v;
            if (cv.size() != W) {
                bad("size", static_cast<long long>(cv.size()), static_cast<long long>(W));
            }
            for (size_t i = 0; i < W; ++i) {
                bool const t = test_of(cv, i);
                if (t != m[i] || cv[i] != m[i] || static_cast<bool>(v[i]) != m[i] || (~v[i]) == m[i]) {
                    bad("bit", t, m[i]);
                    return;
                }
            }
            if (cv.count() != m.count()) {
                bad("count", static_cast<long long>(cv.count()), static_cast<long long>(m.count()));
            }
            if (cv.all() != m.all()) {
                bad("all", cv.all(), m.all());
            }
            if (cv.any() != m.any()) {
                bad("any", cv.any(), m.any());
            }
            if (cv.none() != m.none()) {
                bad("none", cv.none(), m.none());
            }
            if constexpr (IsBitset) {
                if constexpr (W <= 64) {
                    if (cv.to_ullong() != m.to_ullong()) {
                        bad("to_ullong", static_cast<long long>(cv.to_ullong()), static_cast<long long>(m.to_ullong()));
                    }
                    if (cv.to_ulong() != m.to_ulong()) {
                        bad("to_ulong", static_cast<long long>(cv.to_ulong()), static_cast<long long>(m.to_ulong()));
                    }
                }
                auto const str  = cv.template to_string<W>();
                auto const want = m.to_string();
                if (str.size() != W || std::string(str.data(), str.size()) != want) {
                    bad("to_string", static_cast<long long>(str.size()), static_cast<long long>(W));
                }
                auto const str2  = cv.template to_string<W + 3>('.', 'X');
                auto const want2 = m.to_string('.', 'X');
                if (std::string(str2.data(), str2.size()) != want2) {
                    bad("to_string-custom", static_cast<long long>(str2.size()), static_cast<long long>(W));
                }
                // a raw 0 / 1 byte image: the NUL character is a character like any other
                auto const str3  = cv.template to_string<W>('\0', '\1');
                auto const want3 = m.to_string('\0', '\1');
                if (std::string(str3.data(), str3.size()) != want3) {
                    bad("to_string-raw-bytes", static_cast<long long>(str3.size()), static_cast<long long>(W));
                }
            }
        });
        if (!ok) {
            ctx.stop = true;
        }
        return !mismatch;
    }

    void check_relations()
    {
        for (int x = 0; x < pool; ++x) {
            for (int y = 0; y < pool; ++y) {
                if (obj[x] == nullptr || obj[y] == nullptr) {
                    continue;
                }
                bool eq = false;
                bool ne = false;
                if (!observe("bitset-equality", [&] {
                        eq = *obj[x] == *obj[y];
                        ne = *obj[x] != *obj[y];
                    })) {
                    return;
                }
                if (eq != (model[x] == model[y]) || ne != (model[x] != model[y])) {
                    ctx.violation("C17", "diff:equality", "operator==/!= differs from std::bitset");
                    return;
                }
            }
        }
    }

    void observe_all()
    {
        uint64_t sh = hstr(plan.scenario.c_str());
        for (int s = 0; s < pool && !ctx.stop; ++s) {
            if (obj[s] == nullptr) {
                continue;
            }
            if (!check_state(s, "C17", "diff")) {
                if (ctx.stop) {
                    break;
                }
                resync(s);
            }
            if (!arena_guards_ok(s)) {
                ctx.violation("C02", "memory:guard-damaged", "guard bytes around the bitset were overwritten");
                arena_guards_repair(s);
            }
            uint64_t eh = 0;
            size_t cnt  = 0;
            guarded(false, [&] {
                for (size_t i = 0; i < W; ++i) {
                    bool const t = test_of(*obj[s], i);
                    eh           = mix64(eh ^ (static_cast<uint64_t>(t) << (i % 63)) ^ i);
                    cnt += t ? 1U : 0U;
                }
            });
            ctx.log.s(" |");
            ctx.log.u(cnt);
            ctx.log.feed(eh);
            sh = mix64(sh ^ eh ^ (static_cast<uint64_t>(s) << 56));
        }
        if (!ctx.stop) {
            check_relations();
        }
        if (g_counting) {
            states().insert(sh);
            transitions().insert(mix64(sh ^ hstr(ctx.op)));
        }
    }

    void changed(M const& before, M const& after)
    {
        ++ctx.stateChanging;
        if ((after.all() && !before.all()) || (after.none() && !before.none())) {
            ++ctx.boundaryEvents;
        }
    }

    static auto ull_from(Step const& st) -> unsigned long long
    {
        switch (st.k[2] % 4) {
        case 0: return st.k[0];
        case 1: return mix64(st.k[0] ^ (st.k[1] << 17));
        case 2: return ~0ULL >> (st.k[0] % 64);
        default: return (1ULL << (st.k[0] % 64)) | st.k[1];
        }
    }

    void step(Step const& st)
    {
        int const a      = static_cast<int>(st.a % static_cast<uint32_t>(pool));
        int const b      = static_cast<int>(st.b % static_cast<uint32_t>(pool));
        char const* name = ops()[static_cast<size_t>(st.op)].name;
        std::string const op = name;
        begin_op(name, a);
        B& v           = *obj[a];
        M& m           = model[a];
        M const before = m;
        bool const flt = st.flt != 0 && misuse;
        size_t pos     = static_cast<size_t>(st.k[0] % W);
        // positions near word boundaries are the interesting ones
        if (st.k[1] % 3 == 0) {
            static constexpr size_t edges[] = {0, 7, 8, 15, 16, 31, 32, 63, 64, 127, 128};
            size_t const e = edges[st.k[0] % 11];
            pos            = e < W ? e : W - 1;
        }
        bool bad = false;
        if (flt && (op == "set_bit" || op == "reset_bit" || op == "flip_bit" || op == "proxy_assign" || op == "read_bit")) {
            bad = true;
            pos = static_cast<size_t>(beyond(W, st.flt));
        }
        bool const val = st.v[0] % 2 == 1;
        ctx.log.kv("pos", static_cast<long long>(pos));
        ctx.log.kv("val", val);
        ctx.log.kv("b", b);

        // every mutator returns *this by reference (calls can be chained): the address of what comes back is compared
        bool chained = true;
        auto self    = [&](auto&& r) { chained = chained && static_cast<void const*>(&r) == static_cast<void const*>(&v); };
        auto chain_checked = [&] {
            if (!chained) {
                ctx.violation("C17", "diff:returned-reference", "a modifier did not return a reference to the bitset itself (chained calls would act on a copy)");
            }
        };
        if (op == "set_all" || op == "reset_all" || op == "flip_all") {
            bool ok = call(a, false, false, [&] {
                if (op == "set_all") {
                    self(v.set());
                } else if (op == "reset_all") {
                    self(v.reset());
                } else {
                    self(v.flip());
                }
            });
            if (ok) {
                chain_checked();
                if (op == "set_all") {
                    m.set();
                } else if (op == "reset_all") {
                    m.reset();
                } else {
                    m.flip();
                }
                changed(before, m);
            }
            return;
        }
        if (op == "set_bit" || op == "reset_bit" || op == "flip_bit") {
            int const how = static_cast<int>(st.k[2] % 2);
            bool ok       = call(a, bad, false, [&] {
                if constexpr (IsBitset) {
                    if (op == "set_bit") {
                        if (how == 0 || !val) {
                            self(v.set(pos, val));
                        } else {
                            self(v.set(pos)); // defaulted value
                        }
                    } else if (op == "reset_bit") {
                        self(v.reset(pos));
                    } else {
                        self(v.flip(pos));
                    }
                } else {
                    if (op == "set_bit") {
                        if (how == 0 || !val) {
                            self(v.unchecked_set(pos, val));
                        } else {
                            self(v.unchecked_set(pos));
                        }
                    } else if (op == "reset_bit") {
                        self(v.unchecked_reset(pos));
                    } else {
                        self(v.unchecked_flip(pos));
                    }
                }
            });
            if (ok) {
                chain_checked();
                if (op == "set_bit") {
                    m.set(pos, val);
                } else if (op == "reset_bit") {
                    m.reset(pos);
                } else {
                    m.flip(pos);
                }
                changed(before, m);
            }
            return;
        }
        if (op == "proxy_assign") {
            bool ok = call(a, bad, false, [&] { v[pos] = val; });
            if (ok) {
                m[pos] = val;
                changed(before, m);
            }
            return;
        }
        if (op == "proxy_copy") {
            size_t const q = static_cast<size_t>(st.k[1] % W);
            ctx.log.kv("q", static_cast<long long>(q));
            if (obj[b] == nullptr) {
                skip();
                return;
            }
            bool ok = call(a, false, false, [&] { v[pos] = (*obj[b])[q]; });
            if (ok) {
                m[pos] = model[b][q];
                changed(before, m);
            }
            return;
        }
        if (op == "proxy_held") {
            // a reference obtained once names the bit, not a snapshot of it: while it is held the bit changes through the
            // container, through a second reference and through the reference itself, and every read must see the bit
            auto mm        = m;
            bool stale     = false;
            int staleAfter = -1;
            bool ok        = call(a, false, false, [&] {
                auto r  = v[pos];
                auto r2 = v[pos];
                for (int i = 0; i < 3; ++i) {
                    int const act = static_cast<int>((st.k[2] >> (3 * i)) % 6);
                    bool const x  = ((st.v[1] >> i) & 1U) != 0;
                    switch (act) {
                    case 0:
                        if constexpr (IsBitset) {
                            v.flip(pos);
                        } else {
                            v.unchecked_flip(pos);
                        }
                        mm.flip(pos);
                        break;
                    case 1:
                        if constexpr (IsBitset) {
                            v.set(pos, x);
                        } else {
                            v.unchecked_set(pos, x);
                        }
                        mm.set(pos, x);
                        break;
                    case 2:
                        v.reset();
                        mm.reset();
                        break;
                    case 3:
                        r2 = x;
                        mm.set(pos, x);
                        break;
                    case 4:
                        r2.flip();
                        mm.flip(pos);
                        break;
                    default:
                        r = x;
                        mm.set(pos, x);
                        break;
                    }
                    bool const want = mm[pos];
                    if ((static_cast<bool>(r) != want || (~r) == want || static_cast<bool>(r2) != want) && !stale) {
                        stale      = true;
                        staleAfter = act;
                    }
                }
                r.flip();
                mm.flip(pos);
            });
            if (ok) {
                SIM_COUNT("reach.bit_reference_held_across_changes");
                if (stale) {
                    ctx.violation("C17", "diff:proxy-stale", "a held bit reference did not read the current bit after action " + std::to_string(staleAfter));
                }
                m = mm;
                changed(before, m);
            }
            return;
        }
        if (op == "proxy_flip") {
            bool ok = call(a, false, false, [&] { v[pos].flip(); });
            if (ok) {
                m[pos].flip();
                changed(before, m);
            }
            return;
        }
        if (op == "read_bit") {
            if (!bad) {
                skip();
                return;
            }
            bool sink   = false;
            B const& cv = v;
            int const how = static_cast<int>(st.k[2] % 2);
            call(a, true, false, [&] {
                if constexpr (IsBitset) {
                    sink = how == 0 ? cv.test(pos) : cv[pos];
                } else {
                    sink = how == 0 ? cv.unchecked_test(pos) : cv[pos];
                }
            });
            (void)sink;
            return;
        }
        if (op == "and_assign" || op == "or_assign" || op == "xor_assign") {
            if (obj[b] == nullptr) {
                skip();
                return;
            }
            if (a == b) {
                SIM_COUNT("F6.self_as_operand");
            }
            bool ok = call(a, false, false, [&] {
                if (op == "and_assign") {
                    self(v &= *obj[b]);
                } else if (op == "or_assign") {
                    self(v |= *obj[b]);
                } else {
                    self(v ^= *obj[b]);
                }
            });
            if (ok) {
                chain_checked();
                M const other = model[b];
                if (op == "and_assign") {
                    m &= other;
                } else if (op == "or_assign") {
                    m |= other;
                } else {
                    m ^= other;
                }
                changed(before, m);
                ++ctx.boundaryEvents;
            }
            return;
        }
        if (op == "binary") {
            // a = b OP c, and a = ~b for bitset
            int const c = static_cast<int>((st.b + 1 + st.k[1] % 3) % static_cast<uint32_t>(pool));
            if (obj[b] == nullptr || obj[c] == nullptr) {
                skip();
                return;
            }
            int const which = static_cast<int>(st.k[2] % 4);
            ctx.log.kv("which", which);
            ctx.log.kv("c", c);
            bool ok = call(a, false, false, [&] {
                switch (which) {
                case 0: v = *obj[b] & *obj[c]; break;
                case 1: v = *obj[b] | *obj[c]; break;
                case 2: v = *obj[b] ^ *obj[c]; break;
                default:
                    if constexpr (IsBitset) {
                        v = ~*obj[b];
                    } else {
                        v = B(*obj[b]).flip();
                    }
                    break;
                }
            });
            if (ok) {
                switch (which) {
                case 0: m = model[b] & model[c]; break;
                case 1: m = model[b] | model[c]; break;
                case 2: m = model[b] ^ model[c]; break;
                default: m = ~model[b]; break;
                }
                changed(before, m);
                ++ctx.boundaryEvents;
            }
            return;
        }
        if (op == "recreate") {
            recreate(a, b, st);
            return;
        }
        skip();
    }

    void recreate(int a, int b, Step const& st)
    {
        int form = static_cast<int>(st.k[2] % (IsBitset ? 5 : 3));
        if (form == 2 && (a == b || obj[b] == nullptr)) {
            form = 0;
        }
        M const before = model[a];
        ctx.log.kv("form", form);
        unsigned long long const ull = ull_from(st);
        // every fourth integer construction passes a negative value of a narrow signed type
        int const negKind = static_cast<int>(st.k[1] % 3);
        int const negArg  = (form == 1 && st.k[0] % 4 == 0) ? -1 - static_cast<int>(st.k[1] % 100) : 0;
        // string forms (bitset only)
        size_t len  = static_cast<size_t>(st.k[0] % (W + 3));
        size_t spos = static_cast<size_t>(st.k[1] % (len + 1));
        size_t sn   = st.k[1] % 4 == 0 ? static_cast<size_t>(-1) : static_cast<size_t>((st.k[1] / 4) % (len + 2));
        // characters: the defaults, letters, or raw 0/1 bytes (an embedded NUL is legal with an explicit length)
        int const charset = static_cast<int>(st.v[1] % 3);
        char const zero   = charset == 0 ? '0' : (charset == 1 ? 'o' : '\0');
        char const one    = charset == 0 ? '1' : (charset == 1 ? 'I' : '\1');
        bool const customChars = st.v[2] % 2 == 1 || zero != '0';
        std::string text;
        for (size_t i = 0; i < len; ++i) {
            text.push_back(((static_cast<uint64_t>(st.v[i % 4]) + i * 7U + st.k[0] % 1000U) % 3 == 0) ? one : zero);
        }
        // letters in mixed case, compared through case-folding traits (string_view form only)
        bool const folded = form == 3 && charset == 1 && st.v[3] % 2 == 1;
        if (folded) {
            for (size_t i = 0; i < len; ++i) {
                if ((static_cast<uint64_t>(st.v[(i + 1) % 4]) + i) % 2 == 0) {
                    text[i] = text[i] == 'o' ? 'O' : (text[i] == 'I' ? 'i' : text[i]);
                }
            }
            SIM_COUNT("reach.bitset_string_with_folding_traits");
        }
        ctx.log.kv("folded", folded);
        // characters OUTSIDE the window [spos, spos + n) are nobody's business: neither std::bitset nor a contract may
        // look at them (the text may be a field of a longer record)
        if (form == 3 && sn != static_cast<size_t>(-1) && st.flt == 0 && st.v[2] % 3 == 0) {
            size_t const wend = spos + std::min(sn, len - spos);
            for (size_t i = 0; i < len; ++i) {
                if (i < spos || i >= wend) {
                    text[i] = (i % 2 == 0) ? 'x' : ';';
                }
            }
            SIM_COUNT("reach.bitset_string_with_other_characters_outside_the_window");
        }
        bool bad = false;
        bool const posBeyond = form == 3 && st.flt != 0 && misuse && st.k[2] % 10 >= 5;
        if (posBeyond) {
            // start position beyond the view, with a count that would fit: the position itself violates the precondition
            spos = len + 1 + static_cast<size_t>(st.k[1] % 3);
            sn   = 1 + static_cast<size_t>(st.k[0] % (W < 3 ? W : 3));
            bad  = true;
            ctx.log.s(" pos-beyond");
        }
        if (form == 3 && !posBeyond) {
            size_t const used = std::min(sn, len - spos);
            if (used > W) {
                if (st.flt == 0 || !misuse) {
                    sn = W; // keep it inside the documented domain
                } else {
                    bad = true;
                }
            }
        }
        if (form == 4) {
            spos = 0;
            if (sn != static_cast<size_t>(-1) && sn > len) {
                sn = len; // (ptr, n) with n beyond the terminator is not a valid call for std either
            }
            // without an explicit length the C string ends at its first NUL
            size_t const cstrLen = std::min(text.find('\0'), len);
            size_t const used    = sn == static_cast<size_t>(-1) ? cstrLen : sn;
            if (used > W) {
                if (st.flt == 0 || !misuse) {
                    sn = W;
                } else {
                    bad = true;
                }
            }
        }
        ctx.log.kv("len", static_cast<long long>(len));
        ctx.log.kv("spos", static_cast<long long>(spos));
        ctx.log.kv("sn", static_cast<long long>(sn));
        ExactBuf<char> exact(len);      // exact-size, not terminated: for the string_view form
        ExactBuf<char> cstr(len + 1);   // terminated: for the pointer form
        for (size_t i = 0; i < len; ++i) {
            exact.p[i] = text[i];
            cstr.p[i]  = text[i];
        }
        cstr.p[len] = '\0';
        destroy(a);
        void* mem = raw(a);
        B* made   = nullptr;
        ctx.stepClass     = bad ? 2 : 0;
        g_crash.stepClass = ctx.stepClass;
        auto out = guarded(true, [&] {
            switch (form) {
            case 1:
                if (negArg != 0) {
                    // a negative value of a narrow signed type: converted to unsigned long long (sign-extended), as by
                    // std::bitset's constructor
                    switch (negKind) {
                    case 0: made = new (mem) B(static_cast<int>(negArg)); break;
                    case 1: made = new (mem) B(static_cast<short>(negArg)); break;
                    default: made = new (mem) B(static_cast<signed char>(negArg)); break;
                    }
                } else {
                    made = new (mem) B(ull);
                }
                break;
            case 2: made = new (mem) B(static_cast<B const&>(*obj[b])); break;
            case 3:
                if constexpr (IsBitset) {
                    etl::string_view const sv(exact.p, len);
                    if (folded) {
                        etl::basic_string_view<char, FoldTraits> const fsv(exact.p, len);
                        made = new (mem) B(fsv, spos, sn, zero, one);
                    } else if (customChars) {
                        made = new (mem) B(sv, spos, sn, zero, one);
                    } else if (sn == static_cast<size_t>(-1) && spos == 0) {
                        made = new (mem) B(sv); // all defaults
                    } else if (sn == static_cast<size_t>(-1)) {
                        made = new (mem) B(sv, spos);
                    } else {
                        made = new (mem) B(sv, spos, sn);
                    }
                }
                break;
            case 4:
                if constexpr (IsBitset) {
                    char const* p = cstr.p;
                    if (customChars) {
                        made = new (mem) B(p, sn, zero, one);
                    } else if (sn == static_cast<size_t>(-1)) {
                        made = new (mem) B(p);
                    } else {
                        made = new (mem) B(p, sn);
                    }
                }
                break;
            default: made = ((plan.cfg.create >> a) & 1U) != 0 ? new (mem) B : new (mem) B{}; break;
            }
        });
        ctx.stepClass     = 0;
        g_crash.stepClass = 0;
        if (out != Outcome::completed) {
            if (out == Outcome::trapped && bad) {
                Base::trapped_as_expected();
            } else if (out == Outcome::trapped) {
                ctx.violation("C05", "contract:spurious", "handler entered in a valid constructor at " + trap_site());
            }
            if (!arena_guards_ok(a)) {
                ctx.violation("C05", "contract:damage-before-handler:guard", "constructor wrote outside the object before the handler ran");
            }
            arena_retire(a);
            mem = raw(a);
            guarded(true, [&] { made = new (mem) B{}; });
            obj[a] = made;
            model[a].reset();
            return;
        }
        obj[a] = made;
        if (bad) {
            ctx.violation("C05", "contract:not-entered", "string longer than the bitset but the handler was not entered");
            resync(a);
            return;
        }
        M& m = model[a];
        switch (form) {
        case 1: m = negArg != 0 ? M(static_cast<unsigned long long>(static_cast<long long>(negArg))) : M(ull); break;
        case 2: m = model[b]; break;
        case 3:
            if (folded) {
                m = M(std::basic_string<char, StdFoldTraits>(text.data(), len), spos, sn, zero, one);
            } else if (customChars || zero != '0') {
                m = M(text, spos, sn, zero, one);
            } else {
                m = M(text, spos, sn);
            }
            break;
        case 4: m = sn == static_cast<size_t>(-1) ? M(cstr.p, std::string::npos, zero, one) : M(cstr.p, sn, zero, one); break;
        default: m.reset(); break;
        }
        changed(before, m);
        ++ctx.boundaryEvents;
    }

    void run()
    {
        ctx.step = -1;
        ctx.op   = "create";
        for (int s = 0; s < pool; ++s) {
            create_default(s);
        }
        observe_all();
        ctx.log.nl();
        for (size_t i = 0; i < plan.steps.size() && !ctx.stop; ++i) {
            ctx.step     = static_cast<int>(i);
            g_crash.step = ctx.step;
            step(plan.steps[i]);
            if (ctx.stop) {
                break;
            }
            observe_all();
            ctx.log.nl();
        }
        ctx.op = "destroy";
        if (ctx.stop) {
            return;
        }
        for (int s = 0; s < pool; ++s) {
            destroy(s);
        }
    }

    static auto ops() -> std::vector<OpDef> const&
    {
        static std::vector<OpDef> const o = {
            {"set_all", 4},   {"reset_all", 3},  {"flip_all", 6},   {"set_bit", 8},    {"reset_bit", 5}, {"flip_bit", 6}, {"proxy_assign", 5},
            {"proxy_copy", 4}, {"proxy_flip", 4}, {"read_bit", 2},   {"and_assign", 4}, {"or_assign", 4}, {"xor_assign", 4}, {"binary", 5},
            {"recreate", 7},   {"proxy_held", 4},
        };
        return o;
    }
};

// width 0: there is no word to mask and no bit to address, only the whole-set operations and observers
struct ZeroBitsDriver : DriverBase<ZeroBitsDriver> {
    using Base = DriverBase<ZeroBitsDriver>;
    using B0   = etl::bitset<0>;
    using BB0  = etl::basic_bitset<0, unsigned char>;

    ZeroBitsDriver(Plan const& p, Ctx& c)
        : Base(p, c)
    {
    }

    void resync(int) { }

    auto check_state(int, char const*, char const*) -> bool { return true; }

    template <typename X>
    void drive(Step const& st, X& x, char const* what)
    {
        bool all = false, any = true, none = false;
        size_t count = 1, size = 1;
        bool eq = false;
        bool ok = call(-1, false, false, [&] {
            switch (st.op) {
            case 0: x.set(); break;
            case 1: x.reset(); break;
            case 2: x.flip(); break;
            default: break;
            }
            X const other{};
            all   = x.all();
            any   = x.any();
            none  = x.none();
            count = x.count();
            size  = x.size();
            eq    = x == other;
        });
        std::bitset<0> const ref;
        if (ok && (all != ref.all() || any != ref.any() || none != ref.none() || count != 0 || size != 0 || !eq)) {
            ctx.violation("C17", std::string("diff:zero-width:") + what, "a bitset of width 0 does not answer like std::bitset<0>");
        }
    }

    void run()
    {
        B0* b   = new (arena_prepare(0, sizeof(B0), plan.cfg, 1, alignof(B0))) B0{};
        BB0* bb = new (arena_prepare(1, sizeof(BB0), plan.cfg, 2, alignof(BB0))) BB0{};
        for (size_t i = 0; i < plan.steps.size() && !ctx.stop; ++i) {
            Step const& st = plan.steps[i];
            ctx.step       = static_cast<int>(i);
            g_crash.step   = ctx.step;
            begin_op(ops()[static_cast<size_t>(st.op)].name, static_cast<int>(st.a % 2));
            if (st.a % 2 == 0) {
                drive(st, *b, "bitset");
            } else {
                drive(st, *bb, "basic_bitset");
            }
            for (int s = 0; s < 2; ++s) {
                if (!arena_guards_ok(s)) {
                    ctx.violation("C02", "memory:guard-damaged", "a width-0 bitset wrote outside itself");
                    arena_guards_repair(s);
                }
            }
            ++ctx.stateChanging;
            ++ctx.boundaryEvents;
            if (g_counting) {
                states().insert(hstr("bitset<0>"));
                transitions().insert(mix64(hstr(ctx.op)));
            }
            ctx.log.nl();
        }
        arena_retire(0);
        arena_retire(1);
    }

    static auto ops() -> std::vector<OpDef> const&
    {
        static std::vector<OpDef> const o = {{"set_all", 3}, {"reset_all", 2}, {"flip_all", 3}, {"observe", 2}};
        return o;
    }
};

template <size_t W>
void add_bitset()
{
    using D = BitsDriver<etl::bitset<W>, W, true>;
    Scenario s;
    s.family   = "bits";
    s.name     = "bitset<" + std::to_string(W) + ">";
    s.ops      = D::ops();
    s.props    = {"C17", "C02", "C05"};
    s.maxSteps = 30;
    s.run      = [](Plan const& p, Ctx& c) {
        D d(p, c);
        d.run();
    };
    registry().push_back(std::move(s));
}

template <size_t W, typename Word>
void add_basic(char const* wname)
{
    using D = BitsDriver<etl::basic_bitset<W, Word>, W, false>;
    Scenario s;
    s.family   = "bits";
    s.name     = "basic_bitset<" + std::to_string(W) + "," + wname + ">";
    s.ops      = D::ops();
    s.props    = {"C17", "C02", "C05"};
    s.maxSteps = 30;
    s.run      = [](Plan const& p, Ctx& c) {
        D d(p, c);
        d.run();
    };
    registry().push_back(std::move(s));
}

template <typename Word>
void add_basic_all(char const* wname)
{
    add_basic<1, Word>(wname);
    add_basic<7, Word>(wname);
    add_basic<8, Word>(wname);
    add_basic<9, Word>(wname);
    add_basic<31, Word>(wname);
    add_basic<32, Word>(wname);
    add_basic<33, Word>(wname);
    add_basic<63, Word>(wname);
    add_basic<64, Word>(wname);
    add_basic<65, Word>(wname);
    add_basic<127, Word>(wname);
    add_basic<128, Word>(wname);
    add_basic<129, Word>(wname);
}

} // namespace

void register_bits_0();
void register_bits_1();
void register_bits_2();

#if SIM_PART == 0
void register_bits_0()
{
    add_bitset<1>();
    add_bitset<7>();
    add_bitset<8>();
    add_bitset<9>();
    add_bitset<31>();
    add_bitset<32>();
    add_bitset<33>();
    add_bitset<63>();
    add_bitset<64>();
    add_bitset<65>();
    add_bitset<127>();
    add_bitset<128>();
    add_bitset<129>();
    {
        Scenario s;
        s.family   = "bits";
        s.name     = "bitset<0>";
        s.ops      = ZeroBitsDriver::ops();
        s.props    = {"C17", "C02"};
        s.maxSteps = 8;
        s.run      = [](Plan const& p, Ctx& c) {
            ZeroBitsDriver d(p, c);
            d.run();
        };
        registry().push_back(std::move(s));
    }
}

auto main(int argc, char** argv) -> int
{
    register_bits_0();
    register_bits_1();
    register_bits_2();
    return sim::worker_main(argc, argv);
}
#elif SIM_PART == 1
void register_bits_1()
{
    add_basic_all<unsigned char>("uint8");
    add_basic_all<unsigned short>("uint16");
    // more bits than the word type can count: a population count accumulated in the word type wraps here
    add_basic<255, unsigned char>("uint8");
    add_basic<256, unsigned char>("uint8");
    add_basic<257, unsigned char>("uint8");
    add_basic<300, unsigned char>("uint8");
}
#elif SIM_PART == 2
void register_bits_2()
{
    add_basic_all<unsigned int>("uint32");
    add_basic_all<unsigned long>("uint64");
}
#endif
