// Family `views`: histories of span / basic_string_view objects narrowing over exact-size heap buffers, plus the
// stateless rows of the C05 catalogue (bit helpers, div_sat, chrono day/month, layout mappings, array in the SAFE
// configuration) injected as one-shot fault steps between them.
// Oracles: contract (C05), memory (C02: every element a view exposes is read; the buffers are exact-size).
#include <etl/array.hpp>
#include <etl/bit.hpp>
#include <etl/chrono.hpp>
#include <etl/mdspan.hpp>
#include <etl/numeric.hpp>
#include <etl/span.hpp>
#include <etl/string_view.hpp>
#include <etl/strings.hpp>

#define SIM_MAIN_TU 1
#include "../sim/driver.hpp"
#include "../sim/worker.hpp"

#include <string_view>

namespace {

using namespace sim;

struct ViewDriver : DriverBase<ViewDriver> {
    using Base = DriverBase<ViewDriver>;
    using SP   = etl::span<int>;
    using SV   = etl::string_view;

    static constexpr size_t kLen = 9;
    ExactBuf<int> ibuf{kLen};
    ExactBuf<char> cbuf{kLen};
    SP* sp[3] = {nullptr, nullptr, nullptr};
    SV* sv[3] = {nullptr, nullptr, nullptr};

    struct Win {
        size_t off = 0, len = 0;
    };

    Win msp[3];
    Win msv[3];

    ViewDriver(Plan const& p, Ctx& c)
        : Base(p, c)
    {
        for (size_t i = 0; i < kLen; ++i) {
            ibuf.p[i] = static_cast<int>(i * 3 + 1);
            cbuf.p[i] = static_cast<char>('a' + i % 3);
        }
    }

    void resync(int s)
    {
        int const k = s % 3;
        if (s < 3) {
            msp[k] = Win{static_cast<size_t>(sp[k]->data() - ibuf.p), sp[k]->size()};
        } else {
            msv[k] = Win{static_cast<size_t>(sv[k]->data() - cbuf.p), sv[k]->size()};
        }
    }

    // slot numbering for DriverBase: 0..2 spans, 3..5 string views (arena slots of the same index)
    auto check_state(int s, char const* prop, char const* prefix) -> bool
    {
        bool mismatch = false;
        int const k   = s % 3;
        observe("view", [&] {
            if (s < 3) {
                SP const& v = *sp[k];
                if (v.data() != ibuf.p + msp[k].off || v.size() != msp[k].len || v.empty() != (msp[k].len == 0) || v.size_bytes() != msp[k].len * sizeof(int)) {
                    mismatch = true;
                    ctx.violation(prop, std::string(prefix) + ":span-window", "span refers to the wrong window of the buffer");
                    return;
                }
                long long sum = 0;
                for (size_t i = 0; i < v.size(); ++i) {
                    sum += v[i]; // reads every exposed element: an over-long window trips the exact-size buffer
                }
                for (auto it = v.begin(); it != v.end(); ++it) {
                    sum -= *it;
                }
                for (auto it = v.rbegin(); it != v.rend(); ++it) {
                    sum += *it;
                }
                if (!v.empty() && (&v.front() != v.data() || &v.back() != v.data() + (v.size() - 1))) {
                    mismatch = true;
                    ctx.violation(prop, std::string(prefix) + ":span-front-back", "front/back do not name the first/last element");
                }
                ctx.log.i(sum);
            } else {
                SV const& v = *sv[k];
                if (v.data() != cbuf.p + msv[k].off || v.size() != msv[k].len || v.length() != msv[k].len || v.empty() != (msv[k].len == 0)) {
                    mismatch = true;
                    ctx.violation(prop, std::string(prefix) + ":string_view-window", "string_view refers to the wrong window of the buffer");
                    return;
                }
                long long sum = 0;
                for (size_t i = 0; i < v.size(); ++i) {
                    sum += v[i];
                }
                for (auto c : v) {
                    sum -= c;
                }
                if (!v.empty() && (&v.front() != v.data() || &v.back() != v.data() + (v.size() - 1))) {
                    mismatch = true;
                    ctx.violation(prop, std::string(prefix) + ":string_view-front-back", "front/back do not name the first/last character");
                }
                ctx.log.i(sum);
            }
        });
        return !mismatch;
    }

    template <typename UInt>
    void bit_fault(Step const& st, int which)
    {
        constexpr auto digits = static_cast<unsigned long long>(etl::numeric_limits<UInt>::digits);
        bool const bad        = st.flt != 0 && misuse;
        auto const pos        = static_cast<UInt>(bad ? beyond(digits, st.flt, static_cast<unsigned long long>(etl::numeric_limits<UInt>::max())) : st.k[1] % digits);
        UInt const word       = static_cast<UInt>(st.k[0]);
        ctx.log.kv("pos", static_cast<long long>(pos));
        ctx.log.kv("which", which);
        if (st.flt != 0 && !misuse) {
            skip();
            return;
        }
        if (bad && static_cast<unsigned long long>(pos) < digits) {
            skip(); // the type cannot express a position beyond its width with this distance
            return;
        }
        UInt got  = 0;
        bool gotb = false;
        bool ok   = call(-1, bad, false, [&] {
            switch (which) {
            case 0: got = etl::set_bit(word, pos); break;
            case 1: got = etl::set_bit(word, pos, st.v[0] % 2 == 1); break;
            case 2: got = etl::reset_bit(word, pos); break;
            case 3: got = etl::flip_bit(word, pos); break;
            default: gotb = etl::test_bit(word, pos); break;
            }
        });
        if (ok) {
            UInt const bit = static_cast<UInt>(UInt(1) << pos);
            UInt want      = 0;
            switch (which) {
            case 0: want = static_cast<UInt>(word | bit); break;
            case 1: want = st.v[0] % 2 == 1 ? static_cast<UInt>(word | bit) : static_cast<UInt>(word & static_cast<UInt>(~bit)); break;
            case 2: want = static_cast<UInt>(word & static_cast<UInt>(~bit)); break;
            case 3: want = static_cast<UInt>(word ^ bit); break;
            default: want = 0; break;
            }
            if ((which < 4 && got != want) || (which == 4 && gotb != ((word & bit) != 0))) {
                ctx.violation("C14", "diff:bit-helper", "set/reset/flip/test_bit returned a wrong value"); // foreign to every claimed property
            }
        }
    }

    void step(Step const& st)
    {
        int const a      = static_cast<int>(st.a % 3);
        int const b      = static_cast<int>(st.b % 3);
        char const* name = ops()[static_cast<size_t>(st.op)].name;
        std::string const op = name;
        begin_op(name, a);
        bool const flt = st.flt != 0;
        bool const bad = flt && misuse;
        if (flt && !misuse && op != "sp_reset" && op != "sv_reset") {
            skip();
            return;
        }
        // ------------------------------------------------------------------ span
        if (op == "sp_reset") {
            guarded(true, [&] { *sp[a] = SP(ibuf.p, kLen); });
            msp[a] = Win{0, kLen};
            ++ctx.stateChanging;
            return;
        }
        if (op == "sp_first" || op == "sp_last") {
            size_t const len = msp[b].len;
            size_t const n   = bad ? static_cast<size_t>(beyond(len + 1, st.flt)) : static_cast<size_t>(st.k[0] % (len + 1));
            ctx.log.kv("b", b);
            ctx.log.kv("n", static_cast<long long>(n));
            SP r;
            bool ok = call(a, bad, false, [&] { r = op == "sp_first" ? sp[b]->first(n) : sp[b]->last(n); });
            if (ok) {
                *sp[a] = r;
                msp[a] = op == "sp_first" ? Win{msp[b].off, n} : Win{msp[b].off + (len - n), n};
                ++ctx.stateChanging;
                if (n == 0) {
                    ++ctx.boundaryEvents;
                }
            }
            return;
        }
        if (op == "sp_subspan") {
            size_t const len = msp[b].len;
            size_t off       = static_cast<size_t>(st.k[0] % (len + 1));
            size_t cnt       = st.k[1] % 4 == 0 ? etl::dynamic_extent : static_cast<size_t>(st.k[1] % (len - off + 1));
            if (bad) {
                if (st.k[2] % 2 == 0) {
                    off = static_cast<size_t>(beyond(len + 1, st.flt));
                    cnt = etl::dynamic_extent;
                } else {
                    cnt = static_cast<size_t>(beyond(len - off + 1, st.flt, ~uint64_t{0} - 1));
                }
            }
            ctx.log.kv("b", b);
            ctx.log.kv("off", static_cast<long long>(off));
            ctx.log.kv("cnt", static_cast<long long>(cnt));
            SP r;
            bool ok = call(a, bad, false, [&] { r = cnt == etl::dynamic_extent && st.k[2] % 3 == 0 ? sp[b]->subspan(off) : sp[b]->subspan(off, cnt); });
            if (ok) {
                *sp[a] = r;
                msp[a] = Win{msp[b].off + off, cnt == etl::dynamic_extent ? len - off : cnt};
                ++ctx.stateChanging;
            }
            return;
        }
        if (op == "sp_access") {
            size_t const len = msp[a].len;
            int const how    = static_cast<int>(st.k[1] % 3);
            if (!bad && len == 0) {
                skip();
                return;
            }
            if (bad && how != 0 && len != 0) {
                skip();
                return;
            }
            size_t const idx = bad ? static_cast<size_t>(beyond(len, st.flt)) : static_cast<size_t>(st.k[0] % len);
            ctx.log.kv("idx", static_cast<long long>(idx));
            int got = 0;
            bool ok = call(a, bad, false, [&] { got = how == 0 ? (*sp[a])[idx] : (how == 1 ? sp[a]->front() : sp[a]->back()); });
            if (ok) {
                int const want = how == 0 ? ibuf.p[msp[a].off + idx] : (how == 1 ? ibuf.p[msp[a].off] : ibuf.p[msp[a].off + len - 1]);
                if (got != want) {
                    ctx.violation("C19", "diff:span-element", "span element access returned the wrong element"); // foreign
                }
            }
            return;
        }
        if (op == "sp_static") {
            // static-extent span: front/back/operator[] guards and compile-time first/last/subspan
            etl::span<int, 4> s4(ibuf.p + (st.k[0] % 5), 4);
            size_t const idx = bad ? static_cast<size_t>(beyond(4, st.flt)) : static_cast<size_t>(st.k[1] % 4);
            int got          = 0;
            bool ok          = call(-1, bad, false, [&] { got = s4[idx]; });
            if (ok && got != ibuf.p[st.k[0] % 5 + idx]) {
                ctx.violation("C19", "diff:span-element", "static-extent span access returned the wrong element");
            }
            if (!bad) {
                long long sum = 0;
                observe("static-span", [&] {
                    auto f = s4.first<2>();
                    auto l = s4.last<3>();
                    auto m = s4.subspan<1, 2>();
                    auto d = s4.subspan<2>();
                    for (auto x : f) {
                        sum += x;
                    }
                    for (auto x : l) {
                        sum += x;
                    }
                    for (auto x : m) {
                        sum += x;
                    }
                    for (auto x : d) {
                        sum += x;
                    }
                    sum += static_cast<long long>(f.size() + l.size() * 10 + m.size() * 100 + d.size() * 1000);
                });
                ctx.log.i(sum);
            }
            return;
        }
        // ------------------------------------------------------------------ string_view
        if (op == "sv_reset") {
            guarded(true, [&] { *sv[a] = SV(cbuf.p, kLen); });
            msv[a] = Win{0, kLen};
            ++ctx.stateChanging;
            return;
        }
        if (op == "sv_remove_prefix" || op == "sv_remove_suffix") {
            size_t const len = msv[a].len;
            size_t const n   = bad ? static_cast<size_t>(beyond(len + 1, st.flt)) : static_cast<size_t>(st.k[0] % (len + 1));
            ctx.log.kv("n", static_cast<long long>(n));
            bool ok = call(3 + a, bad, false, [&] {
                if (op == "sv_remove_prefix") {
                    sv[a]->remove_prefix(n);
                } else {
                    sv[a]->remove_suffix(n);
                }
            });
            if (ok) {
                msv[a] = op == "sv_remove_prefix" ? Win{msv[a].off + n, len - n} : Win{msv[a].off, len - n};
                ++ctx.stateChanging;
                if (len - n == 0) {
                    ++ctx.boundaryEvents;
                }
            }
            return;
        }
        if (op == "sv_substr") {
            size_t const len = msv[b].len;
            size_t const pos = bad ? static_cast<size_t>(beyond(len + 1, st.flt)) : static_cast<size_t>(st.k[0] % (len + 1));
            size_t const cnt = st.k[1] % 3 == 0 ? SV::npos : static_cast<size_t>(st.k[1] % (len + 2));
            ctx.log.kv("b", b);
            ctx.log.kv("pos", static_cast<long long>(pos));
            ctx.log.kv("cnt", static_cast<long long>(cnt));
            SV r;
            bool ok = call(3 + a, bad, false, [&] { r = sv[b]->substr(pos, cnt); });
            if (ok) {
                *sv[a] = r;
                msv[a] = Win{msv[b].off + pos, std::min(cnt, len - pos)};
                ++ctx.stateChanging;
            }
            return;
        }
        if (op == "sv_copy") {
            size_t const len = msv[a].len;
            size_t const pos = bad ? static_cast<size_t>(beyond(len + 1, st.flt)) : static_cast<size_t>(st.k[0] % (len + 1));
            size_t const cnt = static_cast<size_t>(st.k[1] % (len + 3));
            size_t const n   = pos <= len ? std::min(cnt, len - pos) : 0;
            ExactBuf<char> dest(n);
            size_t got = 0;
            bool ok    = call(3 + a, bad, false, [&] { got = sv[a]->copy(dest.p, cnt, pos); });
            if (ok) {
                bool same = got == n;
                for (size_t i = 0; i < n && same; ++i) {
                    same = dest.p[i] == cbuf.p[msv[a].off + pos + i];
                }
                if (!same) {
                    ctx.violation("C08", "diff:string_view-copy", "string_view::copy copied the wrong characters"); // foreign
                }
            }
            return;
        }
        if (op == "sv_access") {
            size_t const len = msv[a].len;
            int const how    = static_cast<int>(st.k[1] % 3);
            if (!bad && len == 0) {
                skip();
                return;
            }
            if (bad && how != 0 && len != 0) {
                skip();
                return;
            }
            size_t const idx = bad ? static_cast<size_t>(beyond(len, st.flt)) : static_cast<size_t>(st.k[0] % len);
            ctx.log.kv("idx", static_cast<long long>(idx));
            char got = 0;
            call(3 + a, bad, false, [&] { got = how == 0 ? (*sv[a])[idx] : (how == 1 ? sv[a]->front() : sv[a]->back()); });
            (void)got;
            return;
        }
        if (op == "sv_search") {
            // searches on a view into an exact-size, not terminated buffer: any read past the window is visible
            size_t const len = msv[a].len;
            size_t const pos = static_cast<size_t>(st.k[0] % (len + 3));
            char needle[3]   = {static_cast<char>('a' + st.v[0] % 3), static_cast<char>('a' + st.v[1] % 3), static_cast<char>('a' + st.v[2] % 3)};
            size_t const nl  = static_cast<size_t>(st.k[1] % 4);
            std::string_view const ref(cbuf.p + msv[a].off, len);
            std::string_view const rn(needle, nl);
            SV const en(needle, nl);
            // single-character overloads, positions around size()
            {
                char const c = needle[0];
                size_t gc[6] = {};
                bool okc     = call(3 + a, false, false, [&] {
                    gc[0] = sv[a]->find(c, pos);
                    gc[1] = sv[a]->rfind(c, pos);
                    gc[2] = sv[a]->find_first_of(c, pos);
                    gc[3] = sv[a]->find_last_of(c, pos);
                    gc[4] = sv[a]->find_first_not_of(c, pos);
                    gc[5] = sv[a]->find_last_not_of(c, pos);
                });
                if (okc) {
                    size_t const wc[6] = {ref.find(c, pos), ref.rfind(c, pos), ref.find_first_of(c, pos), ref.find_last_of(c, pos), ref.find_first_not_of(c, pos), ref.find_last_not_of(c, pos)};
                    for (int i = 0; i < 6; ++i) {
                        if (gc[i] != wc[i]) {
                            ctx.violation("C08", "diff:string_view-search-char", "string_view single-character search #" + std::to_string(i) + " differs from std::string_view"); // foreign
                            break;
                        }
                    }
                }
            }
            size_t got[8] = {};
            bool ok       = call(3 + a, false, false, [&] {
                got[0] = sv[a]->find(en, pos);
                got[1] = sv[a]->rfind(en, pos);
                got[2] = sv[a]->find_first_of(en, pos);
                got[3] = sv[a]->find_last_of(en, pos);
                got[4] = sv[a]->find_first_not_of(en, pos);
                got[5] = sv[a]->find_last_not_of(en, pos);
                got[6] = static_cast<size_t>(sv[a]->starts_with(en)) * 2 + static_cast<size_t>(sv[a]->ends_with(en));
                got[7] = static_cast<size_t>(sv[a]->compare(en) < 0) * 2 + static_cast<size_t>(sv[a]->compare(en) > 0);
            });
            if (ok) {
                size_t const want[8] = {
                    ref.find(rn, pos), ref.rfind(rn, pos), ref.find_first_of(rn, pos), ref.find_last_of(rn, pos), ref.find_first_not_of(rn, pos),
                    ref.find_last_not_of(rn, pos), static_cast<size_t>(ref.starts_with(rn)) * 2 + static_cast<size_t>(ref.ends_with(rn)),
                    static_cast<size_t>(ref.compare(rn) < 0) * 2 + static_cast<size_t>(ref.compare(rn) > 0),
                };
                for (int i = 0; i < 8; ++i) {
                    if (got[i] != want[i]) {
                        ctx.violation("C08", "diff:string_view-search", "string_view search #" + std::to_string(i) + " differs from std::string_view"); // foreign
                        break;
                    }
                }
            }
            return;
        }
        if (op == "sv_parse") {
            // number parsing on a view into an exact-size, unterminated buffer: reading past the view is visible
            std::string text;
            for (uint64_t i = 0; i < st.k[0] % 3; ++i) {
                text.push_back(' ');
            }
            if (st.k[1] % 3 == 0) {
                text.push_back('-');
            }
            size_t const nd = static_cast<size_t>(st.k[1] / 3 % 13);
            for (size_t i = 0; i < nd; ++i) {
                text.push_back(static_cast<char>('0' + (static_cast<uint64_t>(st.v[i % 4]) + i * 7U + st.k[2]) % 10));
            }
            if (st.k[2] % 4 == 0) {
                text.push_back(st.k[2] % 8 == 0 ? 'x' : '.');
                text.push_back('5');
            }
            ExactBuf<char> buf(text.size());
            for (size_t i = 0; i < text.size(); ++i) {
                buf.p[i] = text[i];
            }
            ctx.log.kv("len", static_cast<long long>(text.size()));
            long long gotValue = 0;
            long gotEnd        = -1;
            int gotErr         = 0;
            double gotFloat    = 0;
            bool ok            = call(-1, false, false, [&] {
                auto const r = etl::strings::to_integer<int>(SV(buf.p, text.size()), 10);
                gotValue     = r.value;
                gotErr       = static_cast<int>(r.error);
                gotEnd       = r.end == nullptr ? -1 : static_cast<long>(r.end - buf.p);
                auto const f = etl::strings::to_floating_point<double>(SV(buf.p, text.size()));
                gotFloat     = f.value;
            });
            (void)gotFloat;
            if (ok && gotErr == 0) {
                char* e            = nullptr;
                long long const rv = std::strtoll(text.c_str(), &e, 10);
                if (rv >= -2147483648LL && rv <= 2147483647LL && (gotValue != rv || gotEnd != e - text.c_str())) {
                    ctx.violation("C10", "diff:to_integer", "to_integer value / consumed count differs from strtol"); // foreign
                }
            }
            ctx.log.kv("err", gotErr);
            return;
        }
        // ------------------------------------------------------------------ stateless catalogue rows
        if (op == "bit8" || op == "bit16" || op == "bit32" || op == "bit64") {
            int const which = static_cast<int>(st.k[2] % 5);
            if (op == "bit8") {
                bit_fault<unsigned char>(st, which);
            } else if (op == "bit16") {
                bit_fault<unsigned short>(st, which);
            } else if (op == "bit32") {
                bit_fault<unsigned int>(st, which);
            } else {
                bit_fault<unsigned long>(st, which);
            }
            return;
        }
        if (op == "div_sat") {
            int const which = static_cast<int>(st.k[2] % 4);
            long long const x = static_cast<long long>(st.k[0] % 2000) - 1000;
            long long const y = bad ? 0 : 1 + static_cast<long long>(st.k[1] % 9);
            ctx.log.kv("which", which);
            long long got = 0;
            bool ok       = call(-1, bad, false, [&] {
                switch (which) {
                case 0: got = etl::div_sat(static_cast<int>(x), static_cast<int>(y)); break;
                case 1: got = static_cast<long long>(etl::div_sat(static_cast<unsigned>(x + 1000), static_cast<unsigned>(y))); break;
                case 2: got = etl::div_sat(static_cast<signed char>(x % 100), static_cast<signed char>(y)); break;
                default: got = etl::div_sat(x, y); break;
                }
            });
            if (ok) {
                long long const want = which == 1 ? (x + 1000) / y : (which == 2 ? (x % 100) / y : x / y);
                if (got != want) {
                    ctx.violation("C14", "diff:div_sat", "div_sat returned a wrong quotient"); // foreign
                }
            }
            return;
        }
        if (op == "chrono_day_month") {
            unsigned const v = bad ? static_cast<unsigned>(beyond(255, st.flt, 0xFFFFFFFFULL)) : static_cast<unsigned>(st.k[0] % 255);
            ctx.log.kv("v", v);
            unsigned got = 0;
            bool ok      = call(-1, bad, false, [&] {
                if (st.k[1] % 2 == 0) {
                    got = static_cast<unsigned>(etl::chrono::day{v});
                } else {
                    got = static_cast<unsigned>(etl::chrono::month{v});
                }
            });
            if (ok && got != v) {
                ctx.violation("C11", "diff:day-month-value", "day/month did not keep its value"); // foreign
            }
            return;
        }
        if (op == "layout_stride") {
            using E2 = etl::extents<int, 3, etl::dynamic_extent>;
            using E3 = etl::dextents<size_t, 3>;
            int const which  = static_cast<int>(st.k[2] % 5);
            size_t const rnk = which == 4 ? 2 : ((which % 2 == 0) ? 2 : 3);
            size_t const r   = bad ? static_cast<size_t>(beyond(rnk, st.flt)) : static_cast<size_t>(st.k[0] % rnk);
            ctx.log.kv("which", which);
            ctx.log.kv("r", static_cast<long long>(r));
            long long got = 0;
            bool ok       = call(-1, bad, false, [&] {
                switch (which) {
                case 0: got = etl::layout_left::mapping<E2>(E2(4)).stride(r); break;
                case 1: got = static_cast<long long>(etl::layout_left::mapping<E3>(E3(2, 3, 4)).stride(r)); break;
                case 2: got = etl::layout_right::mapping<E2>(E2(4)).stride(r); break;
                case 3: got = static_cast<long long>(etl::layout_right::mapping<E3>(E3(2, 3, 4)).stride(r)); break;
                default: got = etl::layout_stride::mapping<E2>(E2(4), etl::array<int, 2>{5, 1}).stride(r); break;
                }
            });
            if (ok) {
                static constexpr long long wantTable[5][3] = {{1, 3, 0}, {1, 2, 6}, {4, 1, 0}, {12, 4, 1}, {5, 1, 0}};
                if (got != wantTable[which][r]) {
                    ctx.violation("C19", "diff:layout-stride", "layout mapping stride(r) differs from the closed form"); // foreign
                }
            }
            return;
        }
        if (op == "array_index") {
            // etl::array::operator[] is only guarded by TETL_PRECONDITION_SAFE: injected only in the SAFE configuration
            etl::array<int, 4> arr{1, 2, 3, 4};
            bool const safeBad = bad && SIM_CHECKS == 2;
            if (bad && !safeBad) {
                skip();
                return;
            }
            size_t const idx = safeBad ? static_cast<size_t>(beyond(4, st.flt)) : static_cast<size_t>(st.k[0] % 4);
            int got          = 0;
            bool ok          = call(-1, safeBad, false, [&] { got = st.k[1] % 2 == 0 ? arr[idx] : static_cast<etl::array<int, 4> const&>(arr)[idx]; });
            if (ok && got != static_cast<int>(idx) + 1) {
                ctx.violation("C19", "diff:array-element", "array element access returned the wrong element");
            }
            return;
        }
        skip();
    }

    void run()
    {
        for (int s = 0; s < 3; ++s) {
            void* m1 = arena_prepare(s, sizeof(SP), plan.cfg, 1);
            void* m2 = arena_prepare(3 + s, sizeof(SV), plan.cfg, 2);
            sp[s]    = new (m1) SP(ibuf.p, kLen);
            sv[s]    = new (m2) SV(cbuf.p, kLen);
            msp[s]   = Win{0, kLen};
            msv[s]   = Win{0, kLen};
        }
        for (size_t i = 0; i < plan.steps.size() && !ctx.stop; ++i) {
            ctx.step     = static_cast<int>(i);
            g_crash.step = ctx.step;
            step(plan.steps[i]);
            uint64_t sh = 0;
            for (int s = 0; s < 6; ++s) {
                if (!check_state(s, "C05", "contract:view-changed")) {
                    resync(s);
                }
                if (!arena_guards_ok(s)) {
                    ctx.violation("C02", "memory:guard-damaged", "guard bytes around a view were overwritten");
                    arena_guards_repair(s);
                }
                Win const& w = s < 3 ? msp[s % 3] : msv[s % 3];
                ctx.log.kv("|", static_cast<long long>(w.off * 16 + w.len));
                sh = mix64(sh ^ (w.off * 16 + w.len) ^ (static_cast<uint64_t>(s) << 40));
            }
            if (g_counting) {
                states().insert(sh);
                transitions().insert(mix64(sh ^ hstr(ctx.op)));
            }
            ctx.log.nl();
        }
        for (int s = 0; s < 6; ++s) {
            arena_retire(s);
        }
    }

    static auto ops() -> std::vector<OpDef> const&
    {
        static std::vector<OpDef> const o = {
            {"sp_reset", 3},  {"sp_first", 5},         {"sp_last", 5},           {"sp_subspan", 7}, {"sp_access", 6}, {"sp_static", 3}, {"sv_reset", 3},
            {"sv_remove_prefix", 6}, {"sv_remove_suffix", 6}, {"sv_substr", 7}, {"sv_copy", 4},    {"sv_access", 6}, {"sv_search", 6}, {"sv_parse", 4}, {"bit8", 3},
            {"bit16", 2},     {"bit32", 3},            {"bit64", 3},             {"div_sat", 3},    {"chrono_day_month", 3}, {"layout_stride", 3},
            {"array_index", 3},
        };
        return o;
    }
};

} // namespace

auto main(int argc, char** argv) -> int
{
    Scenario s;
    s.family   = "views";
    s.name     = "span+string_view+stateless-contracts";
    s.ops      = ViewDriver::ops();
    s.props    = {"C05", "C02"};
    s.maxSteps = 30;
    s.run      = [](Plan const& p, Ctx& c) {
        ViewDriver d(p, c);
        d.run();
    };
    registry().push_back(std::move(s));
    return sim::worker_main(argc, argv);
}
