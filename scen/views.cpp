// Family `views`: histories of span / basic_string_view objects narrowing over exact-size heap buffers, plus the
// stateless rows of the C05 catalogue (bit helpers, div_sat, chrono day/month, layout mappings, array in the SAFE
// configuration) injected as one-shot fault steps between them.
// Oracles: contract (C05), memory (C02: every element a view exposes is read; the buffers are exact-size).
#include <etl/algorithm.hpp>
#include <etl/array.hpp>
#include <etl/bit.hpp>
#include <etl/chrono.hpp>
#include <etl/cstring.hpp>
#include <etl/cwchar.hpp>
#include <etl/mdspan.hpp>
#include <etl/numeric.hpp>
#include <etl/span.hpp>
#include <etl/string_view.hpp>
#include <etl/strings.hpp>

#define SIM_MAIN_TU 1
#include "../sim/driver.hpp"
#include "../sim/worker.hpp"

#include <cstring>
#include <cwchar>
#include <string_view>

namespace {

using namespace sim;

struct ViewDriver : DriverBase<ViewDriver> {
    using Base = DriverBase<ViewDriver>;
    using SP   = etl::span<int>;
    using SV   = etl::string_view;

    static constexpr size_t kLen = 9;
    ExactBuf<int> ibuf{kLen};
    ExactBuf<char> cbuf{kLen};
    SP* sp[3] = {nullptr, nullptr, nullptr};
    SV* sv[3] = {nullptr, nullptr, nullptr};

    struct Win {
        size_t off = 0, len = 0;
    };

    Win msp[3];
    Win msv[3];

    ViewDriver(Plan const& p, Ctx& c)
        : Base(p, c)
    {
        for (size_t i = 0; i < kLen; ++i) {
            ibuf.p[i] = static_cast<int>(i * 3 + 1);
            cbuf.p[i] = static_cast<char>('a' + i % 3);
        }
    }

    void resync(int s)
    {
        int const k = s % 3;
        if (s < 3) {
            msp[k] = Win{static_cast<size_t>(sp[k]->data() - ibuf.p), sp[k]->size()};
        } else {
            msv[k] = Win{static_cast<size_t>(sv[k]->data() - cbuf.p), sv[k]->size()};
        }
    }

    // slot numbering for DriverBase: 0..2 spans, 3..5 string views (arena slots of the same index)
    auto check_state(int s, char const* prop, char const* prefix) -> bool
    {
        bool mismatch = false;
        int const k   = s % 3;
        observe("view", [&] {
            if (s < 3) {
                SP const& v = *sp[k];
                if (v.data() != ibuf.p + msp[k].off || v.size() != msp[k].len || v.empty() != (msp[k].len == 0) || v.size_bytes() != msp[k].len * sizeof(int)) {
                    mismatch = true;
                    ctx.violation(prop, std::string(prefix) + ":span-window", "span refers to the wrong window of the buffer");
                    return;
                }
                long long sum = 0;
                for (size_t i = 0; i < v.size(); ++i) {
                    sum += v[i]; // reads every exposed element: an over-long window trips the exact-size buffer
                }
                for (auto it = v.begin(); it != v.end(); ++it) {
                    sum -= *it;
                }
                for (auto it = v.rbegin(); it != v.rend(); ++it) {
                    sum += *it;
                }
                if (!v.empty() && (&v.front() != v.data() || &v.back() != v.data() + (v.size() - 1))) {
                    mismatch = true;
                    ctx.violation(prop, std::string(prefix) + ":span-front-back", "front/back do not name the first/last element");
                }
                ctx.log.i(sum);
            } else {
                SV const& v = *sv[k];
                if (v.data() != cbuf.p + msv[k].off || v.size() != msv[k].len || v.length() != msv[k].len || v.empty() != (msv[k].len == 0)) {
                    mismatch = true;
                    ctx.violation(prop, std::string(prefix) + ":string_view-window", "string_view refers to the wrong window of the buffer");
                    return;
                }
                long long sum = 0;
                for (size_t i = 0; i < v.size(); ++i) {
                    sum += v[i];
                }
                for (auto c : v) {
                    sum -= c;
                }
                if (!v.empty() && (&v.front() != v.data() || &v.back() != v.data() + (v.size() - 1))) {
                    mismatch = true;
                    ctx.violation(prop, std::string(prefix) + ":string_view-front-back", "front/back do not name the first/last character");
                }
                ctx.log.i(sum);
            }
        });
        return !mismatch;
    }

    template <typename UInt>
    void bit_fault(Step const& st, int which)
    {
        constexpr auto digits = static_cast<unsigned long long>(etl::numeric_limits<UInt>::digits);
        bool const bad        = st.flt != 0 && misuse;
        auto const pos        = static_cast<UInt>(bad ? beyond(digits, st.flt, static_cast<unsigned long long>(etl::numeric_limits<UInt>::max())) : st.k[1] % digits);
        UInt const word       = static_cast<UInt>(st.k[0]);
        ctx.log.kv("pos", static_cast<long long>(pos));
        ctx.log.kv("which", which);
        if (st.flt != 0 && !misuse) {
            skip();
            return;
        }
        if (bad && static_cast<unsigned long long>(pos) < digits) {
            skip(); // the type cannot express a position beyond its width with this distance
            return;
        }
        UInt got  = 0;
        bool gotb = false;
        bool ok   = call(-1, bad, false, [&] {
            switch (which) {
            case 0: got = etl::set_bit(word, pos); break;
            case 1: got = etl::set_bit(word, pos, st.v[0] % 2 == 1); break;
            case 2: got = etl::reset_bit(word, pos); break;
            case 3: got = etl::flip_bit(word, pos); break;
            default: gotb = etl::test_bit(word, pos); break;
            }
        });
        if (ok) {
            UInt const bit = static_cast<UInt>(UInt(1) << pos);
            UInt want      = 0;
            switch (which) {
            case 0: want = static_cast<UInt>(word | bit); break;
            case 1: want = st.v[0] % 2 == 1 ? static_cast<UInt>(word | bit) : static_cast<UInt>(word & static_cast<UInt>(~bit)); break;
            case 2: want = static_cast<UInt>(word & static_cast<UInt>(~bit)); break;
            case 3: want = static_cast<UInt>(word ^ bit); break;
            default: want = 0; break;
            }
            if ((which < 4 && got != want) || (which == 4 && gotb != ((word & bit) != 0))) {
                ctx.violation("C14", "diff:bit-helper", "set/reset/flip/test_bit returned a wrong value"); // foreign to every claimed property
            }
        }
    }

    void step(Step const& st)
    {
        int const a      = static_cast<int>(st.a % 3);
        int const b      = static_cast<int>(st.b % 3);
        char const* name = ops()[static_cast<size_t>(st.op)].name;
        std::string const op = name;
        begin_op(name, a);
        bool const flt = st.flt != 0;
        bool const bad = flt && misuse;
        if (flt && !misuse && op != "sp_reset" && op != "sv_reset") {
            skip();
            return;
        }
        // ------------------------------------------------------------------ span
        if (op == "sp_reset") {
            guarded(true, [&] { *sp[a] = SP(ibuf.p, kLen); });
            msp[a] = Win{0, kLen};
            ++ctx.stateChanging;
            return;
        }
        if (op == "sp_first" || op == "sp_last") {
            size_t const len = msp[b].len;
            size_t const n   = bad ? static_cast<size_t>(beyond(len + 1, st.flt)) : static_cast<size_t>(st.k[0] % (len + 1));
            ctx.log.kv("b", b);
            ctx.log.kv("n", static_cast<long long>(n));
            SP r;
            bool ok = call(a, bad, false, [&] { r = op == "sp_first" ? sp[b]->first(n) : sp[b]->last(n); });
            if (ok) {
                *sp[a] = r;
                msp[a] = op == "sp_first" ? Win{msp[b].off, n} : Win{msp[b].off + (len - n), n};
                ++ctx.stateChanging;
                if (n == 0) {
                    ++ctx.boundaryEvents;
                }
            }
            return;
        }
        if (op == "sp_subspan") {
            size_t const len = msp[b].len;
            size_t off       = static_cast<size_t>(st.k[0] % (len + 1));
            size_t cnt       = st.k[1] % 4 == 0 ? etl::dynamic_extent : static_cast<size_t>(st.k[1] % (len - off + 1));
            if (bad) {
                if (st.k[2] % 2 == 0) {
                    off = static_cast<size_t>(beyond(len + 1, st.flt));
                    cnt = etl::dynamic_extent;
                } else {
                    cnt = static_cast<size_t>(beyond(len - off + 1, st.flt, ~uint64_t{0} - 1));
                }
            }
            ctx.log.kv("b", b);
            if (!bad && st.k[2] % 4 == 1 && len >= 2) {
                // the compile-time forms on a span of dynamic extent: subspan<Offset>() with the defaulted count,
                // subspan<Offset, Count>(), first<Count>(), last<Count>()
                int const form = static_cast<int>(st.k[0] % 6);
                ctx.log.kv("tform", form);
                SP r;
                Win w{};
                bool ok = call(a, false, false, [&] {
                    switch (form) {
                    case 0: r = sp[b]->template subspan<0>(); w = Win{0, len}; break;
                    case 1: r = sp[b]->template subspan<1>(); w = Win{1, len - 1}; break;
                    case 2: r = sp[b]->template subspan<2>(); w = Win{2, len - 2}; break;
                    case 3: r = sp[b]->template subspan<1, 1>(); w = Win{1, 1}; break;
                    case 4: r = sp[b]->template first<2>(); w = Win{0, 2}; break;
                    default: r = sp[b]->template last<2>(); w = Win{len - 2, 2}; break;
                    }
                });
                if (ok) {
                    *sp[a] = r;
                    msp[a] = Win{msp[b].off + w.off, w.len};
                    ++ctx.stateChanging;
                }
                return;
            }
            ctx.log.kv("off", static_cast<long long>(off));
            ctx.log.kv("cnt", static_cast<long long>(cnt));
            SP r;
            bool ok = call(a, bad, false, [&] { r = cnt == etl::dynamic_extent && st.k[2] % 3 == 0 ? sp[b]->subspan(off) : sp[b]->subspan(off, cnt); });
            if (ok) {
                *sp[a] = r;
                msp[a] = Win{msp[b].off + off, cnt == etl::dynamic_extent ? len - off : cnt};
                ++ctx.stateChanging;
            }
            return;
        }
        if (op == "sp_access") {
            size_t const len = msp[a].len;
            int const how    = static_cast<int>(st.k[1] % 3);
            if (!bad && len == 0) {
                skip();
                return;
            }
            if (bad && how != 0 && len != 0) {
                skip();
                return;
            }
            size_t const idx = bad ? static_cast<size_t>(beyond(len, st.flt)) : static_cast<size_t>(st.k[0] % len);
            ctx.log.kv("idx", static_cast<long long>(idx));
            int got = 0;
            bool ok = call(a, bad, false, [&] { got = how == 0 ? (*sp[a])[idx] : (how == 1 ? sp[a]->front() : sp[a]->back()); });
            if (ok) {
                int const want = how == 0 ? ibuf.p[msp[a].off + idx] : (how == 1 ? ibuf.p[msp[a].off] : ibuf.p[msp[a].off + len - 1]);
                if (got != want) {
                    ctx.violation("C19", "diff:span-element", "span element access returned the wrong element"); // foreign
                }
            }
            return;
        }
        if (op == "sp_static") {
            // static-extent span: front/back/operator[] guards and compile-time first/last/subspan
            etl::span<int, 4> s4(ibuf.p + (st.k[0] % 5), 4);
            if (bad && st.k[2] % 3 == 0) {
                // a span of static extent 0 (obtained at compile time from a longer one): front() / back() on it
                int sink     = 0;
                int const w0 = static_cast<int>(st.k[1] % 6);
                ctx.log.kv("zero", w0);
                call(-1, true, false, [&] {
                    switch (w0) {
                    case 0: sink = s4.first<0>().front(); break;
                    case 1: sink = s4.first<0>().back(); break;
                    case 2: sink = s4.last<0>().front(); break;
                    case 3: sink = s4.subspan<4>().front(); break;
                    case 4: sink = s4.subspan<2, 0>().back(); break;
                    default: sink = etl::span<int, 0>(ibuf.p, 0).front(); break;
                    }
                });
                (void)sink;
                return;
            }
            size_t const idx = bad ? static_cast<size_t>(beyond(4, st.flt)) : static_cast<size_t>(st.k[1] % 4);
            int got          = 0;
            bool ok          = call(-1, bad, false, [&] { got = s4[idx]; });
            if (ok && got != ibuf.p[st.k[0] % 5 + idx]) {
                ctx.violation("C19", "diff:span-element", "static-extent span access returned the wrong element");
            }
            if (!bad) {
                long long sum = 0;
                observe("static-span", [&] {
                    auto f = s4.first<2>();
                    auto l = s4.last<3>();
                    auto m = s4.subspan<1, 2>();
                    auto d = s4.subspan<2>();
                    for (auto x : f) {
                        sum += x;
                    }
                    for (auto x : l) {
                        sum += x;
                    }
                    for (auto x : m) {
                        sum += x;
                    }
                    for (auto x : d) {
                        sum += x;
                    }
                    sum += static_cast<long long>(f.size() + l.size() * 10 + m.size() * 100 + d.size() * 1000);
                });
                ctx.log.i(sum);
            }
            return;
        }
        // ------------------------------------------------------------------ string_view
        if (op == "sv_reset") {
            guarded(true, [&] { *sv[a] = SV(cbuf.p, kLen); });
            msv[a] = Win{0, kLen};
            ++ctx.stateChanging;
            return;
        }
        if (op == "sv_remove_prefix" || op == "sv_remove_suffix") {
            size_t const len = msv[a].len;
            size_t const n   = bad ? static_cast<size_t>(beyond(len + 1, st.flt)) : static_cast<size_t>(st.k[0] % (len + 1));
            ctx.log.kv("n", static_cast<long long>(n));
            bool ok = call(3 + a, bad, false, [&] {
                if (op == "sv_remove_prefix") {
                    sv[a]->remove_prefix(n);
                } else {
                    sv[a]->remove_suffix(n);
                }
            });
            if (ok) {
                msv[a] = op == "sv_remove_prefix" ? Win{msv[a].off + n, len - n} : Win{msv[a].off, len - n};
                ++ctx.stateChanging;
                if (len - n == 0) {
                    ++ctx.boundaryEvents;
                }
            }
            return;
        }
        if (op == "sv_substr") {
            size_t const len = msv[b].len;
            size_t const pos = bad ? static_cast<size_t>(beyond(len + 1, st.flt)) : static_cast<size_t>(st.k[0] % (len + 1));
            size_t const cnt = st.k[1] % 3 == 0 ? SV::npos : static_cast<size_t>(st.k[1] % (len + 2));
            ctx.log.kv("b", b);
            ctx.log.kv("pos", static_cast<long long>(pos));
            ctx.log.kv("cnt", static_cast<long long>(cnt));
            SV r;
            bool ok = call(3 + a, bad, false, [&] { r = sv[b]->substr(pos, cnt); });
            if (ok) {
                *sv[a] = r;
                msv[a] = Win{msv[b].off + pos, std::min(cnt, len - pos)};
                ++ctx.stateChanging;
            }
            return;
        }
        if (op == "sv_copy") {
            size_t const len = msv[a].len;
            size_t const pos = bad ? static_cast<size_t>(beyond(len + 1, st.flt)) : static_cast<size_t>(st.k[0] % (len + 1));
            size_t const cnt = static_cast<size_t>(st.k[1] % (len + 3));
            size_t const n   = pos <= len ? std::min(cnt, len - pos) : 0;
            ExactBuf<char> dest(n);
            size_t got = 0;
            bool ok    = call(3 + a, bad, false, [&] { got = sv[a]->copy(dest.p, cnt, pos); });
            if (ok) {
                bool same = got == n;
                for (size_t i = 0; i < n && same; ++i) {
                    same = dest.p[i] == cbuf.p[msv[a].off + pos + i];
                }
                if (!same) {
                    ctx.violation("C08", "diff:string_view-copy", "string_view::copy copied the wrong characters"); // foreign
                }
            }
            return;
        }
        if (op == "sv_access") {
            size_t const len = msv[a].len;
            int const how    = static_cast<int>(st.k[1] % 3);
            if (!bad && len == 0) {
                skip();
                return;
            }
            if (bad && how != 0 && len != 0) {
                skip();
                return;
            }
            size_t const idx = bad ? static_cast<size_t>(beyond(len, st.flt)) : static_cast<size_t>(st.k[0] % len);
            ctx.log.kv("idx", static_cast<long long>(idx));
            char got = 0;
            call(3 + a, bad, false, [&] { got = how == 0 ? (*sv[a])[idx] : (how == 1 ? sv[a]->front() : sv[a]->back()); });
            (void)got;
            return;
        }
        if (op == "sv_search") {
            // searches on a view into an exact-size, not terminated buffer: any read past the window is visible
            size_t const len = msv[a].len;
            size_t const pos = static_cast<size_t>(st.k[0] % (len + 3));
            char needle[3]   = {static_cast<char>('a' + st.v[0] % 3), static_cast<char>('a' + st.v[1] % 3), static_cast<char>('a' + st.v[2] % 3)};
            size_t const nl  = static_cast<size_t>(st.k[1] % 4);
            std::string_view const ref(cbuf.p + msv[a].off, len);
            std::string_view const rn(needle, nl);
            SV const en(needle, nl);
            // single-character overloads, positions around size()
            {
                char const c = needle[0];
                size_t gc[6] = {};
                bool okc     = call(3 + a, false, false, [&] {
                    gc[0] = sv[a]->find(c, pos);
                    gc[1] = sv[a]->rfind(c, pos);
                    gc[2] = sv[a]->find_first_of(c, pos);
                    gc[3] = sv[a]->find_last_of(c, pos);
                    gc[4] = sv[a]->find_first_not_of(c, pos);
                    gc[5] = sv[a]->find_last_not_of(c, pos);
                });
                if (okc) {
                    size_t const wc[6] = {ref.find(c, pos), ref.rfind(c, pos), ref.find_first_of(c, pos), ref.find_last_of(c, pos), ref.find_first_not_of(c, pos), ref.find_last_not_of(c, pos)};
                    for (int i = 0; i < 6; ++i) {
                        if (gc[i] != wc[i]) {
                            ctx.violation("C08", "diff:string_view-search-char", "string_view single-character search #" + std::to_string(i) + " differs from std::string_view"); // foreign
                            break;
                        }
                    }
                }
            }
            size_t got[8] = {};
            bool ok       = call(3 + a, false, false, [&] {
                got[0] = sv[a]->find(en, pos);
                got[1] = sv[a]->rfind(en, pos);
                got[2] = sv[a]->find_first_of(en, pos);
                got[3] = sv[a]->find_last_of(en, pos);
                got[4] = sv[a]->find_first_not_of(en, pos);
                got[5] = sv[a]->find_last_not_of(en, pos);
                got[6] = static_cast<size_t>(sv[a]->starts_with(en)) * 2 + static_cast<size_t>(sv[a]->ends_with(en));
                got[7] = static_cast<size_t>(sv[a]->compare(en) < 0) * 2 + static_cast<size_t>(sv[a]->compare(en) > 0);
            });
            if (ok) {
                size_t const want[8] = {
                    ref.find(rn, pos), ref.rfind(rn, pos), ref.find_first_of(rn, pos), ref.find_last_of(rn, pos), ref.find_first_not_of(rn, pos),
                    ref.find_last_not_of(rn, pos), static_cast<size_t>(ref.starts_with(rn)) * 2 + static_cast<size_t>(ref.ends_with(rn)),
                    static_cast<size_t>(ref.compare(rn) < 0) * 2 + static_cast<size_t>(ref.compare(rn) > 0),
                };
                for (int i = 0; i < 8; ++i) {
                    if (got[i] != want[i]) {
                        ctx.violation("C08", "diff:string_view-search", "string_view search #" + std::to_string(i) + " differs from std::string_view"); // foreign
                        break;
                    }
                }
            }
            return;
        }
        if (op == "sv_parse") {
            // number parsing on a view into an exact-size, unterminated buffer: reading past the view is visible
            std::string text;
            for (uint64_t i = 0; i < st.k[0] % 3; ++i) {
                text.push_back(' ');
            }
            if (st.k[1] % 3 == 0) {
                text.push_back('-');
            }
            size_t const nd = static_cast<size_t>(st.k[1] / 3 % 13);
            for (size_t i = 0; i < nd; ++i) {
                text.push_back(static_cast<char>('0' + (static_cast<uint64_t>(st.v[i % 4]) + i * 7U + st.k[2]) % 10));
            }
            if (st.k[2] % 4 == 0) {
                text.push_back(st.k[2] % 8 == 0 ? 'x' : '.');
                text.push_back('5');
            }
            // a quarter of the texts sit exactly on a limit of the target type: max, max + 1, min, min - 1
            int const which = static_cast<int>(st.v[0] % 5); // signed char, short, int, long, long long
            bool const edge = st.k[2] % 4 == 1;
            if (edge) {
                static constexpr unsigned long long maxes[5] = {127ULL, 32767ULL, 2147483647ULL, 9223372036854775807ULL, 9223372036854775807ULL};
                int const form = static_cast<int>(st.k[1] % 4);
                unsigned long long const mag = maxes[which] + (form == 1 ? 1ULL : (form == 2 ? 1ULL : (form == 3 ? 2ULL : 0ULL)));
                text = (form >= 2 ? "-" : "") + std::to_string(mag);
                ctx.log.kv("edge", which * 10 + form);
                SIM_COUNT("reach.integer_text_on_a_type_limit");
            }
            ExactBuf<char> buf(text.size());
            for (size_t i = 0; i < text.size(); ++i) {
                buf.p[i] = text[i];
            }
            ctx.log.kv("len", static_cast<long long>(text.size()));
            if (edge) {
                long long ev = 0;
                int ee       = 0;
                bool ok2     = call(-1, false, false, [&] {
                    SV const v(buf.p, text.size());
                    switch (which) {
                    case 0: { auto const r = etl::strings::to_integer<signed char>(v, 10); ev = r.value; ee = static_cast<int>(r.error); break; }
                    case 1: { auto const r = etl::strings::to_integer<short>(v, 10); ev = r.value; ee = static_cast<int>(r.error); break; }
                    case 2: { auto const r = etl::strings::to_integer<int>(v, 10); ev = r.value; ee = static_cast<int>(r.error); break; }
                    case 3: { auto const r = etl::strings::to_integer<long>(v, 10); ev = r.value; ee = static_cast<int>(r.error); break; }
                    default: { auto const r = etl::strings::to_integer<long long>(v, 10); ev = r.value; ee = static_cast<int>(r.error); break; }
                    }
                });
                if (ok2) {
                    // max and min are representable, the other two are not
                    int const form     = static_cast<int>(st.k[1] % 4);
                    bool const fits    = form == 0 || form == 2;
                    if (fits != (ee == 0)) {
                        ctx.violation("C10", "diff:to_integer-limit", "a text on the limit of the target type was accepted / rejected wrongly"); // foreign
                    }
                    ctx.log.kv("err", ee);
                    if (ee == 0) {
                        ctx.log.i(ev);
                    }
                }
                return;
            }
            long long gotValue = 0;
            long gotEnd        = -1;
            int gotErr         = 0;
            double gotFloat    = 0;
            bool ok            = call(-1, false, false, [&] {
                auto const r = etl::strings::to_integer<int>(SV(buf.p, text.size()), 10);
                gotValue     = r.value;
                gotErr       = static_cast<int>(r.error);
                gotEnd       = r.end == nullptr ? -1 : static_cast<long>(r.end - buf.p);
                auto const f = etl::strings::to_floating_point<double>(SV(buf.p, text.size()));
                gotFloat     = f.value;
            });
            (void)gotFloat;
            if (ok && gotErr == 0) {
                char* e            = nullptr;
                long long const rv = std::strtoll(text.c_str(), &e, 10);
                if (rv >= -2147483648LL && rv <= 2147483647LL && (gotValue != rv || gotEnd != e - text.c_str())) {
                    ctx.violation("C10", "diff:to_integer", "to_integer value / consumed count differs from strtol"); // foreign
                }
            }
            ctx.log.kv("err", gotErr);
            return;
        }
        // ------------------------------------------------------------------ stateless catalogue rows
        if (op == "bit8" || op == "bit16" || op == "bit32" || op == "bit64") {
            int const which = static_cast<int>(st.k[2] % 5);
            if (op == "bit8") {
                bit_fault<unsigned char>(st, which);
            } else if (op == "bit16") {
                bit_fault<unsigned short>(st, which);
            } else if (op == "bit32") {
                bit_fault<unsigned int>(st, which);
            } else {
                bit_fault<unsigned long>(st, which);
            }
            return;
        }
        if (op == "div_sat") {
            int const which = static_cast<int>(st.k[2] % 4);
            long long const x = static_cast<long long>(st.k[0] % 2000) - 1000;
            long long const y = bad ? 0 : 1 + static_cast<long long>(st.k[1] % 9);
            ctx.log.kv("which", which);
            long long got = 0;
            bool ok       = call(-1, bad, false, [&] {
                switch (which) {
                case 0: got = etl::div_sat(static_cast<int>(x), static_cast<int>(y)); break;
                case 1: got = static_cast<long long>(etl::div_sat(static_cast<unsigned>(x + 1000), static_cast<unsigned>(y))); break;
                case 2: got = etl::div_sat(static_cast<signed char>(x % 100), static_cast<signed char>(y)); break;
                default: got = etl::div_sat(x, y); break;
                }
            });
            if (ok) {
                long long const want = which == 1 ? (x + 1000) / y : (which == 2 ? (x % 100) / y : x / y);
                if (got != want) {
                    ctx.violation("C14", "diff:div_sat", "div_sat returned a wrong quotient"); // foreign
                }
            }
            return;
        }
        if (op == "chrono_day_month") {
            unsigned const v = bad ? static_cast<unsigned>(beyond(255, st.flt, 0xFFFFFFFFULL)) : static_cast<unsigned>(st.k[0] % 255);
            ctx.log.kv("v", v);
            if (!bad && st.k[2] % 3 == 0) {
                // arithmetic on a day / month object: ++, --, +=, -= document no precondition (the counters wrap like
                // the unsigned char they are / modulo 12): a walk across the ends of the range must never reach the handler
                int const walk = 2 + static_cast<int>(st.k[1] % 6);
                unsigned last  = 0;
                call(-1, false, false, [&] {
                    if (st.k[1] % 2 == 0) {
                        etl::chrono::day d{v};
                        for (int i = 0; i < walk; ++i) {
                            switch ((st.v[i % 4] + i) % 4) {
                            case 0: ++d; break;
                            case 1: d++; break;
                            case 2: d += etl::chrono::days{3}; break;
                            default: --d; break;
                            }
                        }
                        last = static_cast<unsigned>(d);
                    } else {
                        etl::chrono::month m{1 + v % 12};
                        for (int i = 0; i < walk; ++i) {
                            switch ((st.v[i % 4] + i) % 4) {
                            case 0: ++m; break;
                            case 1: m++; break;
                            case 2: m += etl::chrono::months{5}; break;
                            default: --m; break;
                            }
                        }
                        last = static_cast<unsigned>(m);
                    }
                });
                ctx.log.kv("last", last);
                return;
            }
            unsigned got = 0;
            bool ok      = call(-1, bad, false, [&] {
                if (st.k[1] % 2 == 0) {
                    got = static_cast<unsigned>(etl::chrono::day{v});
                } else {
                    got = static_cast<unsigned>(etl::chrono::month{v});
                }
            });
            if (ok && got != v) {
                ctx.violation("C11", "diff:day-month-value", "day/month did not keep its value"); // foreign
            }
            return;
        }
        if (op == "layout_stride") {
            using E2 = etl::extents<int, 3, etl::dynamic_extent>;
            using E3 = etl::dextents<size_t, 3>;
            int const which  = static_cast<int>(st.k[2] % 5);
            size_t const rnk = which == 4 ? 2 : ((which % 2 == 0) ? 2 : 3);
            size_t const r   = bad ? static_cast<size_t>(beyond(rnk, st.flt)) : static_cast<size_t>(st.k[0] % rnk);
            ctx.log.kv("which", which);
            ctx.log.kv("r", static_cast<long long>(r));
            long long got = 0;
            bool ok       = call(-1, bad, false, [&] {
                switch (which) {
                case 0: got = etl::layout_left::mapping<E2>(E2(4)).stride(r); break;
                case 1: got = static_cast<long long>(etl::layout_left::mapping<E3>(E3(2, 3, 4)).stride(r)); break;
                case 2: got = etl::layout_right::mapping<E2>(E2(4)).stride(r); break;
                case 3: got = static_cast<long long>(etl::layout_right::mapping<E3>(E3(2, 3, 4)).stride(r)); break;
                default: got = etl::layout_stride::mapping<E2>(E2(4), etl::array<int, 2>{5, 1}).stride(r); break;
                }
            });
            if (ok) {
                static constexpr long long wantTable[5][3] = {{1, 3, 0}, {1, 2, 6}, {4, 1, 0}, {12, 4, 1}, {5, 1, 0}};
                if (got != wantTable[which][r]) {
                    ctx.violation("C19", "diff:layout-stride", "layout mapping stride(r) differs from the closed form"); // foreign
                }
            }
            return;
        }
        if (op == "algo_fill_n") {
            // etl::fill_n over an exact-size buffer with a signed count that may be zero or negative ("does nothing")
            size_t const len = 1 + static_cast<size_t>(st.k[0] % 8);
            ExactBuf<int> buf(len);
            for (size_t i = 0; i < len; ++i) {
                buf.p[i] = 5;
            }
            int const count = static_cast<int>(st.k[1] % (len + 3)) - 2; // -2 … len
            int const which = static_cast<int>(st.k[2] % 3);
            ctx.log.kv("len", static_cast<long long>(len));
            ctx.log.kv("count", count);
            long ret = -1;
            bool ok  = call(-1, false, false, [&] {
                int* r = nullptr;
                switch (which) {
                case 0: r = etl::fill_n(buf.p, static_cast<signed char>(count), 9); break;
                case 1: r = etl::fill_n(buf.p, static_cast<short>(count), 9); break;
                default: r = etl::fill_n(buf.p, count, 9); break;
                }
                ret = r - buf.p;
            });
            if (ok) {
                long const want = count > 0 ? count : 0;
                bool same       = ret == want;
                for (size_t i = 0; i < len; ++i) {
                    same = same && buf.p[i] == (static_cast<long>(i) < want ? 9 : 5);
                }
                if (!same) {
                    ctx.violation("C06", "diff:fill_n", "fill_n did not write exactly max(count, 0) elements"); // foreign
                }
            }
            return;
        }
        if (op == "array_index") {
            // etl::array::operator[] is only guarded by TETL_PRECONDITION_SAFE: injected only in the SAFE configuration
            etl::array<int, 4> arr{1, 2, 3, 4};
            bool const safeBad = bad && SIM_CHECKS == 2;
            if (bad && !safeBad) {
                skip();
                return;
            }
            size_t const idx = safeBad ? static_cast<size_t>(beyond(4, st.flt)) : static_cast<size_t>(st.k[0] % 4);
            int got          = 0;
            bool ok          = call(-1, safeBad, false, [&] { got = st.k[1] % 2 == 0 ? arr[idx] : static_cast<etl::array<int, 4> const&>(arr)[idx]; });
            if (ok && got != static_cast<int>(idx) + 1) {
                ctx.violation("C19", "diff:array-element", "array element access returned the wrong element");
            }
            return;
        }
        skip();
    }

    void run()
    {
        for (int s = 0; s < 3; ++s) {
            void* m1 = arena_prepare(s, sizeof(SP), plan.cfg, 1, alignof(SP));
            void* m2 = arena_prepare(3 + s, sizeof(SV), plan.cfg, 2, alignof(SV));
            sp[s]    = new (m1) SP(ibuf.p, kLen);
            sv[s]    = new (m2) SV(cbuf.p, kLen);
            msp[s]   = Win{0, kLen};
            msv[s]   = Win{0, kLen};
        }
        for (size_t i = 0; i < plan.steps.size() && !ctx.stop; ++i) {
            ctx.step     = static_cast<int>(i);
            g_crash.step = ctx.step;
            step(plan.steps[i]);
            uint64_t sh = 0;
            for (int s = 0; s < 6; ++s) {
                if (!check_state(s, "C05", "contract:view-changed")) {
                    resync(s);
                }
                if (!arena_guards_ok(s)) {
                    ctx.violation("C02", "memory:guard-damaged", "guard bytes around a view were overwritten");
                    arena_guards_repair(s);
                }
                Win const& w = s < 3 ? msp[s % 3] : msv[s % 3];
                ctx.log.kv("|", static_cast<long long>(w.off * 16 + w.len));
                sh = mix64(sh ^ (w.off * 16 + w.len) ^ (static_cast<uint64_t>(s) << 40));
            }
            if (g_counting) {
                states().insert(sh);
                transitions().insert(mix64(sh ^ hstr(ctx.op)));
            }
            ctx.log.nl();
        }
        for (int s = 0; s < 6; ++s) {
            arena_retire(s);
        }
    }

    static auto ops() -> std::vector<OpDef> const&
    {
        static std::vector<OpDef> const o = {
            {"sp_reset", 3},  {"sp_first", 5},         {"sp_last", 5},           {"sp_subspan", 7}, {"sp_access", 6}, {"sp_static", 3}, {"sv_reset", 3},
            {"sv_remove_prefix", 6}, {"sv_remove_suffix", 6}, {"sv_substr", 7}, {"sv_copy", 4},    {"sv_access", 6}, {"sv_search", 6}, {"sv_parse", 4}, {"bit8", 3},
            {"bit16", 2},     {"bit32", 3},            {"bit64", 3},             {"div_sat", 3},    {"chrono_day_month", 3}, {"layout_stride", 3},
            {"array_index", 3}, {"algo_fill_n", 2},
        };
        return o;
    }
};


// ================================================================================================ C strings
// Family `views`, scenario `cstring` / `cwchar`: histories over three caller-owned C-string buffers of exact size. The
// buffers are the whole world: what was written into them by earlier calls (and the garbage that still lies behind the
// terminator) is what the next call meets. Faults: destination that fits exactly (F1), count 0 and count == capacity,
// overlapping memmove (F6), garbage behind the terminator and behind the defined prefix (F3).
// Oracles: memory (C02: canaries on both sides of every buffer - poisoned under ASan -, no allocation, results
// independent of the garbage pattern). The value comparison with the host C library is filed under C18, which no check
// claims (a foreign divergence in the evidence).
template <typename C>
struct CFn;

template <>
struct CFn<char> {
    static auto e_len(char const* s) -> size_t { return etl::strlen(s); }
    static auto c_len(char const* s) -> size_t { return std::strlen(s); }
    static auto e_cpy(char* d, char const* s) -> char* { return etl::strcpy(d, s); }
    static auto c_cpy(char* d, char const* s) -> char* { return std::strcpy(d, s); }
    static auto e_ncpy(char* d, char const* s, size_t n) -> char* { return etl::strncpy(d, s, n); }
    static auto c_ncpy(char* d, char const* s, size_t n) -> char* { return std::strncpy(d, s, n); }
    static auto e_cat(char* d, char const* s) -> char* { return etl::strcat(d, s); }
    static auto c_cat(char* d, char const* s) -> char* { return std::strcat(d, s); }
    static auto e_ncat(char* d, char const* s, size_t n) -> char* { return etl::strncat(d, s, n); }
    static auto c_ncat(char* d, char const* s, size_t n) -> char* { return std::strncat(d, s, n); }
    static auto e_cmp(char const* a, char const* b) -> int { return etl::strcmp(a, b); }
    static auto c_cmp(char const* a, char const* b) -> int { return std::strcmp(a, b); }
    static auto e_ncmp(char const* a, char const* b, size_t n) -> int { return etl::strncmp(a, b, n); }
    static auto c_ncmp(char const* a, char const* b, size_t n) -> int { return std::strncmp(a, b, n); }
    static auto e_chr(char const* a, char c) -> char const* { return etl::strchr(a, c); }
    static auto c_chr(char const* a, char c) -> char const* { return std::strchr(a, c); }
    static auto e_rchr(char const* a, char c) -> char const* { return etl::strrchr(a, c); }
    static auto c_rchr(char const* a, char c) -> char const* { return std::strrchr(a, c); }
    static auto e_spn(char const* a, char const* b) -> size_t { return etl::strspn(a, b); }
    static auto c_spn(char const* a, char const* b) -> size_t { return std::strspn(a, b); }
    static auto e_cspn(char const* a, char const* b) -> size_t { return etl::strcspn(a, b); }
    static auto c_cspn(char const* a, char const* b) -> size_t { return std::strcspn(a, b); }
    static auto e_pbrk(char const* a, char const* b) -> char const* { return etl::strpbrk(a, b); }
    static auto c_pbrk(char const* a, char const* b) -> char const* { return std::strpbrk(a, b); }
    static auto e_str(char const* a, char const* b) -> char const* { return etl::strstr(a, b); }
    static auto c_str(char const* a, char const* b) -> char const* { return std::strstr(a, b); }
    static auto e_mcpy(char* d, char const* s, size_t n) -> char* { return static_cast<char*>(etl::memcpy(d, s, n)); }
    static auto c_mcpy(char* d, char const* s, size_t n) -> char* { return static_cast<char*>(std::memcpy(d, s, n)); }
    static auto e_mmove(char* d, char const* s, size_t n) -> char* { return static_cast<char*>(etl::memmove(d, s, n)); }
    static auto c_mmove(char* d, char const* s, size_t n) -> char* { return static_cast<char*>(std::memmove(d, s, n)); }
    static auto e_mset(char* d, char c, size_t n) -> char* { return static_cast<char*>(etl::memset(d, c, n)); }
    static auto c_mset(char* d, char c, size_t n) -> char* { return static_cast<char*>(std::memset(d, c, n)); }
    static auto e_mchr(char const* a, char c, size_t n) -> char const* { return static_cast<char const*>(etl::memchr(static_cast<void const*>(a), c, n)); }
    static auto c_mchr(char const* a, char c, size_t n) -> char const* { return static_cast<char const*>(std::memchr(a, c, n)); }
    static auto e_mcmp(char const* a, char const* b, size_t n) -> int { return etl::memcmp(a, b, n); }
    static auto c_mcmp(char const* a, char const* b, size_t n) -> int { return std::memcmp(a, b, n); }
};

template <>
struct CFn<wchar_t> {
    using W = wchar_t;
    static auto e_len(W const* s) -> size_t { return etl::wcslen(s); }
    static auto c_len(W const* s) -> size_t { return std::wcslen(s); }
    static auto e_cpy(W* d, W const* s) -> W* { return etl::wcscpy(d, s); }
    static auto c_cpy(W* d, W const* s) -> W* { return std::wcscpy(d, s); }
    static auto e_ncpy(W* d, W const* s, size_t n) -> W* { return etl::wcsncpy(d, s, n); }
    static auto c_ncpy(W* d, W const* s, size_t n) -> W* { return std::wcsncpy(d, s, n); }
    static auto e_cat(W* d, W const* s) -> W* { return etl::wcscat(d, s); }
    static auto c_cat(W* d, W const* s) -> W* { return std::wcscat(d, s); }
    static auto e_ncat(W* d, W const* s, size_t n) -> W* { return etl::wcsncat(d, s, n); }
    static auto c_ncat(W* d, W const* s, size_t n) -> W* { return std::wcsncat(d, s, n); }
    static auto e_cmp(W const* a, W const* b) -> int { return etl::wcscmp(a, b); }
    static auto c_cmp(W const* a, W const* b) -> int { return std::wcscmp(a, b); }
    static auto e_ncmp(W const* a, W const* b, size_t n) -> int { return etl::wcsncmp(a, b, n); }
    static auto c_ncmp(W const* a, W const* b, size_t n) -> int { return std::wcsncmp(a, b, n); }
    static auto e_chr(W const* a, W c) -> W const* { return etl::wcschr(a, static_cast<int>(c)); }
    static auto c_chr(W const* a, W c) -> W const* { return std::wcschr(a, c); }
    static auto e_rchr(W const* a, W c) -> W const* { return etl::wcsrchr(a, static_cast<int>(c)); }
    static auto c_rchr(W const* a, W c) -> W const* { return std::wcsrchr(a, c); }
    static auto e_spn(W const* a, W const* b) -> size_t { return etl::wcsspn(a, b); }
    static auto c_spn(W const* a, W const* b) -> size_t { return std::wcsspn(a, b); }
    static auto e_cspn(W const* a, W const* b) -> size_t { return etl::wcscspn(a, b); }
    static auto c_cspn(W const* a, W const* b) -> size_t { return std::wcscspn(a, b); }
    static auto e_pbrk(W const* a, W const* b) -> W const* { return etl::wcspbrk(a, b); }
    static auto c_pbrk(W const* a, W const* b) -> W const* { return std::wcspbrk(a, b); }
    static auto e_str(W const* a, W const* b) -> W const* { return etl::wcsstr(a, b); }
    static auto c_str(W const* a, W const* b) -> W const* { return std::wcsstr(a, b); }
    static auto e_mcpy(W* d, W const* s, size_t n) -> W* { return etl::wmemcpy(d, s, n); }
    static auto c_mcpy(W* d, W const* s, size_t n) -> W* { return std::wmemcpy(d, s, n); }
    static auto e_mmove(W* d, W const* s, size_t n) -> W* { return etl::wmemmove(d, s, n); }
    static auto c_mmove(W* d, W const* s, size_t n) -> W* { return std::wmemmove(d, s, n); }
    static auto e_mset(W* d, W c, size_t n) -> W* { return etl::wmemset(d, c, n); }
    static auto c_mset(W* d, W c, size_t n) -> W* { return std::wmemset(d, c, n); }
    static auto e_mchr(W const* a, W c, size_t n) -> W const* { return etl::wmemchr(a, c, n); }
    static auto c_mchr(W const* a, W c, size_t n) -> W const* { return std::wmemchr(a, c, n); }
    static auto e_mcmp(W const* a, W const* b, size_t n) -> int { return etl::wmemcmp(a, b, n); }
    static auto c_mcmp(W const* a, W const* b, size_t n) -> int { return std::wmemcmp(a, b, n); }
};

// exact-size caller buffer with a canary block on both sides (poisoned under ASan, compared in every build)
template <typename C>
struct GuardBuf {
    static constexpr size_t G = 32; // canary characters per side
    C* raw     = nullptr;
    size_t cap = 0;

    GuardBuf() = default;
    GuardBuf(GuardBuf const&)                    = delete;
    auto operator=(GuardBuf const&) -> GuardBuf& = delete;

    ~GuardBuf() { release(); }

    void release()
    {
        if (raw != nullptr) {
#if SIM_ASAN
            __asan_unpoison_memory_region(raw, (cap + 2 * G) * sizeof(C));
#endif
            std::free(raw);
            raw = nullptr;
        }
    }

    void allocate(size_t n)
    {
        release();
        cap = n;
        raw = static_cast<C*>(std::malloc((n + 2 * G) * sizeof(C)));
        std::memset(raw, 0xC7, G * sizeof(C));
        std::memset(raw + G + n, 0xC7, G * sizeof(C));
#if SIM_ASAN
        __asan_poison_memory_region(raw, G * sizeof(C));
        __asan_poison_memory_region(raw + G + n, G * sizeof(C));
#endif
    }

    [[nodiscard]] auto data() const -> C* { return raw + G; }

    [[nodiscard]] auto guards_ok() const -> bool
    {
#if SIM_ASAN
        __asan_unpoison_memory_region(raw, G * sizeof(C));
        __asan_unpoison_memory_region(raw + G + cap, G * sizeof(C));
#endif
        bool ok        = true;
        auto const* lo = reinterpret_cast<unsigned char const*>(raw);
        auto const* hi = reinterpret_cast<unsigned char const*>(raw + G + cap);
        for (size_t i = 0; i < G * sizeof(C); ++i) {
            ok = ok && lo[i] == 0xC7 && hi[i] == 0xC7;
        }
        if (!ok) {
            std::memset(raw, 0xC7, G * sizeof(C));
            std::memset(raw + G + cap, 0xC7, G * sizeof(C));
        }
#if SIM_ASAN
        __asan_poison_memory_region(raw, G * sizeof(C));
        __asan_poison_memory_region(raw + G + cap, G * sizeof(C));
#endif
        return ok;
    }
};

template <typename C>
struct CstrDriver : DriverBase<CstrDriver<C>> {
    using Base = DriverBase<CstrDriver<C>>;
    using Base::begin_op;
    using Base::call;
    using Base::ctx;
    using Base::plan;
    using Base::skip;
    using F = CFn<C>;

    static constexpr int kBufs = 3;
    GuardBuf<C> buf[kBufs];
    std::vector<C> mdl[kBufs]; // the same characters (including the garbage), driven by the host C library
    size_t def[kBufs] = {};    // [0, def) has been written by the harness or by a call; it contains a terminator

    CstrDriver(Plan const& p, Ctx& c)
        : Base(p, c)
    {
    }

    void resync(int) { }

    auto check_state(int, char const*, char const*) -> bool { return true; }

    auto letter(int64_t v) const -> C { return static_cast<C>('a' + static_cast<int>(static_cast<uint64_t>(v) % static_cast<uint64_t>(plan.cfg.alpha < 2 ? 2 : plan.cfg.alpha))); }

    void create(int i, Step const& st, uint64_t salt)
    {
        static constexpr size_t caps[] = {1, 2, 3, 5, 9, 17, 33};
        size_t const cap = caps[(st.k[0] + salt) % 7];
        buf[i].allocate(cap);
        mdl[i].assign(cap, C(0));
        uint64_t gs = plan.cfg.gseed ^ mix64(salt * 977 + static_cast<uint64_t>(i));
        for (size_t j = 0; j < cap; ++j) {
            C g = C(0);
            for (size_t b = 0; b < sizeof(C); ++b) {
                g = static_cast<C>(static_cast<unsigned long long>(g) | (static_cast<unsigned long long>(garbage_byte(plan.cfg, gs)) << (8 * b)));
            }
            if constexpr (sizeof(C) > 1) {
                g = static_cast<C>(static_cast<unsigned long long>(g) & 0x10FFFFULL); // a valid wchar_t value
            }
            buf[i].data()[j] = g;
        }
        size_t const len = static_cast<size_t>((st.k[1] + salt) % cap); // 0 .. cap-1
        for (size_t j = 0; j < len; ++j) {
            buf[i].data()[j] = letter(st.v[j % 4] + static_cast<int64_t>(j * (salt + 1)));
        }
        buf[i].data()[len] = C(0);
        def[i]             = len + 1;
        std::copy(buf[i].data(), buf[i].data() + cap, mdl[i].begin());
    }

    // harness write (not a library call): every buffer holds a terminated string before the next call
    void ensure_terminated(int i)
    {
        for (size_t j = 0; j < def[i]; ++j) {
            if (mdl[i][j] == C(0)) {
                return;
            }
        }
        size_t at = def[i] < buf[i].cap ? def[i] : buf[i].cap - 1;
        buf[i].data()[at] = C(0);
        mdl[i][at]        = C(0);
        def[i]            = std::max(def[i], at + 1);
    }

    auto mlen(int i) const -> size_t { return F::c_len(mdl[i].data()); }

    void foreign(char const* what)
    {
        ctx.violation("C18", std::string("diff:cstring:") + what + ":" + ctx.op, std::string(what) + " differs from the host C library");
    }

    // after a mutator: the defined prefix must equal the model's, the returned pointer must be dest, canaries intact
    void verify(int i, C const* ret, C const* want)
    {
        if (ret != want) {
            foreign("returned-pointer");
        }
        bool same = true;
        for (size_t j = 0; j < def[i]; ++j) {
            same = same && buf[i].data()[j] == mdl[i][j];
        }
        if (!same) {
            foreign("content");
            std::copy(buf[i].data(), buf[i].data() + buf[i].cap, mdl[i].begin());
        }
        ensure_terminated(i);
    }

    void check_guards()
    {
        for (int i = 0; i < kBufs; ++i) {
            if (!buf[i].guards_ok()) {
                ctx.violation("C02", "memory:guard-damaged", "a C-string function wrote outside the destination buffer (buffer " + std::to_string(i) + ")");
            }
        }
    }

    static auto sgn(int x) -> int { return (x > 0) - (x < 0); }

    void step(Step const& st)
    {
        int const a      = static_cast<int>(st.a % kBufs);
        int b            = static_cast<int>(st.b % kBufs);
        char const* name = ops()[static_cast<size_t>(st.op)].name;
        std::string const op = name;
        begin_op(name, a);
        ctx.log.kv("b", b);
        C* const A        = buf[a].data();
        size_t const capA = buf[a].cap;
        size_t const lenA = mlen(a);
        if (op == "recreate") {
            create(a, st, static_cast<uint64_t>(ctx.step) + 2);
            ctx.log.kv("cap", static_cast<long long>(buf[a].cap));
            ++ctx.stateChanging;
            return;
        }
        if (op == "observe") {
            C const* B        = buf[b].data();
            C const ch        = st.k[2] % 5 == 0 ? C(0) : letter(st.v[0]);
            size_t const n    = static_cast<size_t>(st.k[0] % (capA + 3));
            size_t const nm   = static_cast<size_t>(st.k[1] % (std::min(def[a], def[b]) + 1));
            size_t const nc   = static_cast<size_t>(st.k[1] % (def[a] + 1));
            long long r[11]   = {};
            long long w[11]   = {};
            C const* const MA = mdl[a].data();
            C const* const MB = mdl[b].data();
            auto off          = [](C const* p, C const* base) -> long long { return p == nullptr ? -1 : static_cast<long long>(p - base); };
            bool ok           = call(-1, false, false, [&] {
                r[0]  = static_cast<long long>(F::e_len(A));
                r[1]  = sgn(F::e_cmp(A, B));
                r[2]  = sgn(F::e_ncmp(A, B, n));
                r[3]  = off(F::e_chr(A, ch), A);
                r[4]  = off(F::e_rchr(A, ch), A);
                r[5]  = static_cast<long long>(F::e_spn(A, B));
                r[6]  = static_cast<long long>(F::e_cspn(A, B));
                r[7]  = off(F::e_pbrk(A, B), A);
                r[8]  = off(F::e_str(A, B), A);
                r[9]  = off(F::e_mchr(A, ch, nc), A);
                r[10] = sgn(F::e_mcmp(A, B, nm));
            });
            if (!ok) {
                return;
            }
            w[0]  = static_cast<long long>(F::c_len(MA));
            w[1]  = sgn(F::c_cmp(MA, MB));
            w[2]  = sgn(F::c_ncmp(MA, MB, n));
            w[3]  = off(F::c_chr(MA, ch), MA);
            w[4]  = off(F::c_rchr(MA, ch), MA);
            w[5]  = static_cast<long long>(F::c_spn(MA, MB));
            w[6]  = static_cast<long long>(F::c_cspn(MA, MB));
            w[7]  = off(F::c_pbrk(MA, MB), MA);
            w[8]  = off(F::c_str(MA, MB), MA);
            w[9]  = off(F::c_mchr(MA, ch, nc), MA);
            w[10] = sgn(F::c_mcmp(MA, MB, nm));
            static char const* const what[11] = {"strlen", "strcmp", "strncmp", "strchr", "strrchr", "strspn", "strcspn", "strpbrk", "strstr", "memchr", "memcmp"};
            for (int i = 0; i < 11; ++i) {
                ctx.log.i(r[i]);
                if (r[i] != w[i]) {
                    foreign(what[i]);
                }
            }
            if (n == 0 || nm == 0 || nc == 0) {
                SIM_COUNT("reach.cstr_zero_count");
            }
            if (a == b) {
                SIM_COUNT("F6.cstr_same_buffer_twice");
            }
            return;
        }
        // ---- mutators: source and destination must be different buffers (except memmove, which works inside one)
        if (op != "memmove" && op != "memset" && a == b) {
            b = (a + 1) % kBufs;
            ctx.log.kv("b2", b);
        }
        C const* const B  = buf[b].data();
        size_t const lenB = mlen(b);
        C* const MA       = mdl[a].data();
        C const* const MB = mdl[b].data();
        C* ret            = nullptr;
        auto exact        = [&](size_t needed) {
            if (needed == capA) {
                SIM_COUNT("F1.cstr_destination_fits_exactly");
                ++ctx.faultsFired;
                ++ctx.boundaryEvents;
            }
        };
        if (op == "strcpy") {
            if (lenB + 1 > capA) {
                skip();
                return;
            }
            exact(lenB + 1);
            if (call(-1, false, false, [&] { ret = F::e_cpy(A, B); })) {
                F::c_cpy(MA, MB);
                def[a] = std::max(def[a], lenB + 1);
                verify(a, ret, A);
                ++ctx.stateChanging;
            }
            return;
        }
        if (op == "strncpy") {
            size_t const n = st.flt != 0 ? capA : static_cast<size_t>(st.k[0] % (capA + 1));
            ctx.log.kv("n", static_cast<long long>(n));
            exact(n);
            if (n == 0) {
                SIM_COUNT("reach.cstr_zero_count");
            }
            if (call(-1, false, false, [&] { ret = F::e_ncpy(A, B, n); })) {
                F::c_ncpy(MA, MB, n);
                def[a] = std::max(def[a], n);
                verify(a, ret, A);
                ++ctx.stateChanging;
            }
            return;
        }
        if (op == "strcat") {
            if (lenA + lenB + 1 > capA) {
                skip();
                return;
            }
            exact(lenA + lenB + 1);
            if (call(-1, false, false, [&] { ret = F::e_cat(A, B); })) {
                F::c_cat(MA, MB);
                def[a] = std::max(def[a], lenA + lenB + 1);
                verify(a, ret, A);
                ++ctx.stateChanging;
            }
            return;
        }
        if (op == "strncat") {
            size_t n = static_cast<size_t>(st.k[0] % (lenB + 3));
            if (st.flt != 0 && capA > lenA + 1) {
                n = std::min(lenB, capA - lenA - 1); // as much as fits exactly
            }
            size_t const add = std::min(n, lenB);
            if (lenA + add + 1 > capA) {
                skip();
                return;
            }
            ctx.log.kv("n", static_cast<long long>(n));
            exact(lenA + add + 1);
            if (call(-1, false, false, [&] { ret = F::e_ncat(A, B, n); })) {
                F::c_ncat(MA, MB, n);
                def[a] = std::max(def[a], lenA + add + 1);
                verify(a, ret, A);
                ++ctx.stateChanging;
            }
            return;
        }
        if (op == "memset") {
            size_t const n = st.flt != 0 ? capA : static_cast<size_t>(st.k[0] % (capA + 1));
            C const ch     = st.k[1] % 4 == 0 ? C(0) : letter(st.v[0]);
            ctx.log.kv("n", static_cast<long long>(n));
            exact(n);
            if (call(-1, false, false, [&] { ret = F::e_mset(A, ch, n); })) {
                F::c_mset(MA, ch, n);
                def[a] = std::max(def[a], n);
                verify(a, ret, A);
                ++ctx.stateChanging;
            }
            return;
        }
        if (op == "memcpy") {
            size_t const lim = std::min(capA, def[b]);
            size_t const n   = st.flt != 0 ? lim : static_cast<size_t>(st.k[0] % (lim + 1));
            ctx.log.kv("n", static_cast<long long>(n));
            exact(n);
            if (call(-1, false, false, [&] { ret = F::e_mcpy(A, B, n); })) {
                F::c_mcpy(MA, MB, n);
                def[a] = std::max(def[a], n);
                verify(a, ret, A);
                ++ctx.stateChanging;
            }
            return;
        }
        if (op == "memmove") {
            // inside one buffer: source window [src, src+n) within the defined prefix, destination window within the
            // capacity; the two overlap unless they happen not to
            size_t const src = static_cast<size_t>(st.k[0] % def[a]);
            size_t const n   = static_cast<size_t>(st.k[1] % (def[a] - src + 1));
            size_t const dst = static_cast<size_t>(st.k[2] % (capA - n + 1));
            ctx.log.kv("src", static_cast<long long>(src));
            ctx.log.kv("dst", static_cast<long long>(dst));
            ctx.log.kv("n", static_cast<long long>(n));
            if (dst > def[a]) {
                skip(); // would leave an undefined gap between the prefix and the moved block
                return;
            }
            if (n != 0 && dst < src + n && src < dst + n) {
                SIM_COUNT("F6.memmove_overlap");
                ++ctx.faultsFired;
                ++ctx.boundaryEvents;
            }
            exact(dst + n);
            if (call(-1, false, false, [&] { ret = F::e_mmove(A + dst, A + src, n); })) {
                F::c_mmove(MA + dst, MA + src, n);
                def[a] = std::max(def[a], dst + n);
                verify(a, ret, A + dst);
                ++ctx.stateChanging;
            }
            return;
        }
        skip();
    }

    void run()
    {
        Step init{};
        for (int i = 0; i < kBufs; ++i) {
            // sizes and contents come from the plan's seed, never from the garbage generator: the second pass of the C02
            // oracle replaces the garbage and must meet the same world
            uint64_t const w = mix64(plan.seed ^ 0x63737472ULL);
            init.k[0]        = w >> (3 * i);
            init.k[1]        = w >> (7 + 5 * i);
            for (int j = 0; j < 4; ++j) {
                init.v[j] = static_cast<int64_t>((w >> (11 + 2 * j)) & 7U);
            }
            create(i, init, static_cast<uint64_t>(i) * 131);
        }
        for (size_t s = 0; s < plan.steps.size() && !ctx.stop; ++s) {
            ctx.step     = static_cast<int>(s);
            g_crash.step = ctx.step;
            step(plan.steps[s]);
            check_guards();
            uint64_t sh = 0;
            for (int i = 0; i < kBufs; ++i) {
                uint64_t h = buf[i].cap;
                for (size_t j = 0; j < def[i]; ++j) {
                    h = mix64(h ^ static_cast<uint64_t>(buf[i].data()[j]));
                }
                ctx.log.feed(h);
                sh = mix64(sh ^ (buf[i].cap * 64 + mlen(i)) ^ (static_cast<uint64_t>(i) << 40));
            }
            if (g_counting) {
                states().insert(sh);
                transitions().insert(mix64(sh ^ hstr(ctx.op)));
            }
            ctx.log.nl();
        }
    }

    static auto ops() -> std::vector<OpDef> const&
    {
        static std::vector<OpDef> const o = {
            {"recreate", 4}, {"observe", 8}, {"strcpy", 5}, {"strncpy", 5}, {"strcat", 5}, {"strncat", 5}, {"memset", 3}, {"memcpy", 4}, {"memmove", 5},
        };
        return o;
    }
};

template <typename C>
void add_cstr(char const* name)
{
    Scenario s;
    s.family   = "views";
    s.name     = name;
    s.ops      = CstrDriver<C>::ops();
    s.props    = {"C02"};
    s.maxSteps = 30;
    // under clang the library forwards most of these functions to compiler builtins
    s.compilerNeutral = false;
    s.run      = [](Plan const& p, Ctx& c) {
        CstrDriver<C> d(p, c);
        d.run();
    };
    registry().push_back(std::move(s));
}

} // namespace

auto main(int argc, char** argv) -> int
{
    Scenario s;
    s.family   = "views";
    s.name     = "span+string_view+stateless-contracts";
    s.ops      = ViewDriver::ops();
    s.props    = {"C05", "C02"};
    s.maxSteps = 30;
    s.run      = [](Plan const& p, Ctx& c) {
        ViewDriver d(p, c);
        d.run();
    };
    registry().push_back(std::move(s));
    add_cstr<char>("cstring-over-exact-buffers");
    add_cstr<wchar_t>("cwchar-over-exact-buffers");
    return sim::worker_main(argc, argv);
}
