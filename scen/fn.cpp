// Family `fn`: callable wrappers (inplace_function, function_ref, reference_wrapper, bind_front, not_fn, invoke)
// and pair / tuple histories.
// Oracles: call log of instrumented targets against a trivial model (C20), lifetime registry for captured
// state (C03), contract (C05: calling an empty inplace_function reaches the exception handler, never a target).
#include <etl/functional.hpp>
#include <etl/tuple.hpp>
#include <etl/utility.hpp>

#if !defined(SIM_PART)
    #define SIM_PART 0
#endif
#if SIM_PART == 0
    #define SIM_MAIN_TU 1
#endif
#include "../sim/driver.hpp"
#include "../sim/worker.hpp"

#include <optional>
#include <tuple>
#include <utility>
#include <vector>

namespace {

using namespace sim;

// ------------------------------------------------------------------------------------------------ call log
struct CallRec {
    int id;          // which logical target
    int count;       // the target's own call counter after this call
    int x;           // by-value argument
    void const* ref; // address of the int& argument
    void const* cref; // address of the Tracked const& argument
    int moved;       // value taken out of the rvalue argument
};

inline std::vector<CallRec> g_calls;

inline void log_call(CallRec r)
{
    LibPause pause; // the log allocates: harness code running inside a library call
    g_calls.push_back(r);
}

// signature used for every wrapper: by value, lvalue reference, const reference, rvalue reference
using Sig = int(int, int&, Tracked const&, TrackedMoveOnly&&);

inline auto target_body(int id, int& count, int x, int& r, Tracked const& c, TrackedMoveOnly&& m) -> int
{
    ++count;
    r += x;
    TrackedMoveOnly taken(static_cast<TrackedMoveOnly&&>(m));
    log_call(CallRec{id, count, x, &r, &c, taken.v});
    return id * 1000 + count * 10 + (x + c.v) % 10;
}

inline int g_freeCount[3] = {0, 0, 0};

inline auto free0(int x, int& r, Tracked const& c, TrackedMoveOnly&& m) -> int { return target_body(900, g_freeCount[0], x, r, c, static_cast<TrackedMoveOnly&&>(m)); }

inline auto free1(int x, int& r, Tracked const& c, TrackedMoveOnly&& m) -> int { return target_body(901, g_freeCount[1], x, r, c, static_cast<TrackedMoveOnly&&>(m)); }

inline auto free2(int x, int& r, Tracked const& c, TrackedMoveOnly&& m) -> int { return target_body(902, g_freeCount[2], x, r, c, static_cast<TrackedMoveOnly&&>(m)); }

// an EMPTY class with non-trivial special members: it has no bytes to copy, but it is still an object that has to be
// constructed, copied, moved and destroyed (it registers by address)
inline int g_emptyCount = 0;

struct EmptyFn {
    EmptyFn() { reg().on_construct(this); }

    EmptyFn(EmptyFn const& o)
    {
        reg().need_live(&o, "copy-from-dead");
        reg().on_construct(this);
    }

    EmptyFn(EmptyFn&& o) noexcept
    {
        reg().need_live(&o, "move-from-dead");
        reg().on_construct(this);
    }

    ~EmptyFn() { reg().on_destroy(this); }

    auto operator()(int x, int& r, Tracked const& c, TrackedMoveOnly&& m) const -> int
    {
        reg().need_live(this, "call-on-dead");
        return target_body(600, g_emptyCount, x, r, c, static_cast<TrackedMoveOnly&&>(m));
    }
};

static_assert(std::is_empty_v<EmptyFn>);

// trivially copyable, stateful
struct SmallFn {
    int id;
    mutable int count;

    auto operator()(int x, int& r, Tracked const& c, TrackedMoveOnly&& m) const -> int
    {
        return target_body(id, count, x, r, c, static_cast<TrackedMoveOnly&&>(m));
    }
};

// non-trivially copyable: owns an instrumented member, padded to an exact size
template <size_t Size>
struct BigFn {
    Tracked life;
    int id;
    mutable int count;
    unsigned char pad[Size - sizeof(Tracked) - 2 * sizeof(int)];

    BigFn(int i, int c)
        : life(i)
        , id(i)
        , count(c)
    {
        for (auto& p : pad) {
            p = static_cast<unsigned char>(i);
        }
    }

    auto operator()(int x, int& r, Tracked const& c, TrackedMoveOnly&& m) const -> int
    {
        for (auto p : pad) {
            if (p != static_cast<unsigned char>(id)) {
                return -777; // captured state was not copied / relocated faithfully
            }
        }
        if (life.v != id) {
            return -778;
        }
        return target_body(id, count, x, r, c, static_cast<TrackedMoveOnly&&>(m));
    }
};

static_assert(sizeof(BigFn<16>) == 16 && sizeof(BigFn<32>) == 32 && sizeof(BigFn<64>) == 64);

// the same, over-aligned: for wrappers with an explicit Alignment argument. Every constructor checks where it runs - the
// wrapper's own storage and every temporary it relocates the callable through must honour the alignment
template <size_t Size, size_t Al>
struct alignas(Al) BigFnOA {
    Tracked life;
    int id;
    mutable int count;
    unsigned char pad[Size - sizeof(Tracked) - 2 * sizeof(int)];

    void aligned_or_report() const
    {
        if (reinterpret_cast<uintptr_t>(this) % Al != 0 && g_ctx != nullptr && g_ctx->stepClass != 2) {
            LibPause pause;
            g_ctx->violation("C02", "memory:misaligned-object", "an over-aligned callable was constructed at " + Registry::where(this) + ", which is not a multiple of its alignment");
        }
    }

    BigFnOA(int i, int c)
        : life(i)
        , id(i)
        , count(c)
    {
        for (auto& p : pad) {
            p = static_cast<unsigned char>(i);
        }
    }

    BigFnOA(BigFnOA const& o)
        : life(o.life)
        , id(o.id)
        , count(o.count)
    {
        aligned_or_report();
        for (size_t i = 0; i < sizeof(pad); ++i) {
            pad[i] = o.pad[i];
        }
    }

    BigFnOA(BigFnOA&& o) noexcept
        : life(static_cast<Tracked&&>(o.life))
        , id(o.id)
        , count(o.count)
    {
        aligned_or_report();
        for (size_t i = 0; i < sizeof(pad); ++i) {
            pad[i] = o.pad[i];
        }
    }

    auto operator()(int x, int& r, Tracked const& c, TrackedMoveOnly&& m) const -> int
    {
        for (auto p : pad) {
            if (p != static_cast<unsigned char>(id)) {
                return -777;
            }
        }
        if (life.v != id) {
            return -778;
        }
        return target_body(id, count, x, r, c, static_cast<TrackedMoveOnly&&>(m));
    }
};

static_assert(sizeof(BigFnOA<64, 64>) == 64 && alignof(BigFnOA<64, 64>) == 64);

struct TargetModel {
    int kind  = 0; // 0 free function, 1 SmallFn, 2 BigFn<16>, 3 BigFn<Cap>
    int id    = 0;
    int count = 0;
};

// ================================================================================================ inplace_function
template <size_t Cap, size_t Align = 0>
struct FnDriver : DriverBase<FnDriver<Cap, Align>> {
    using Base = DriverBase<FnDriver<Cap, Align>>;
    using Base::begin_op;
    using Base::call;
    using Base::ctx;
    using Base::misuse;
    using Base::observe;
    using Base::plan;
    using Base::pool;
    using Base::skip;
    // Align == 0: the default alignment; otherwise an explicit Alignment argument (and an over-aligned callable of
    // exactly the capacity as target kind 3)
    using F = std::conditional_t<Align == 0, etl::inplace_function<Sig, Cap>, etl::inplace_function<Sig, Cap, (Align == 0 ? alignof(void*) : Align)>>;
    static constexpr size_t SmallCap = Cap >= 32 ? 16 : 8;
    using FS = etl::inplace_function<Sig, SmallCap>; // source of converting copies / moves
    static constexpr int nkinds = Cap >= 32 ? 4 : (Cap >= 16 ? 3 : 2);

    F* obj[3] = {nullptr, nullptr, nullptr};
    std::optional<TargetModel> model[3];

    FnDriver(Plan const& p, Ctx& c)
        : Base(p, c)
    {
    }

    auto raw(int s) -> void* { return arena_prepare(s, sizeof(F), plan.cfg, static_cast<uint64_t>(ctx.step + 1), alignof(F)); }

    static auto tracked_inside(std::optional<TargetModel> const& m) -> size_t { return m.has_value() && m->kind >= 2 ? 1 : 0; }

    void destroy(int s)
    {
        if (obj[s] == nullptr) {
            return;
        }
        auto* lo = slot_obj(s);
        guarded(true, [&] { obj[s]->~F(); });
        if (reg().live_in(lo, lo + sizeof(F)) != 0) {
            ctx.violation("C03", "lifetime:alive-after-owner-destroyed", "captured state alive inside a destroyed inplace_function");
            reg().forget_range(lo, lo + sizeof(F));
        }
        if (!arena_guards_ok(s)) {
            ctx.violation("C02", "memory:guard-damaged", "guard bytes around the inplace_function were overwritten");
        }
        arena_retire(s);
        obj[s] = nullptr;
    }

    void resync(int s)
    {
        // only the engaged flag can be re-read; the target's identity is not observable without calling it
        if (obj[s] != nullptr && !static_cast<bool>(*obj[s])) {
            model[s].reset();
        }
    }

    auto check_state(int s, char const* prop, char const* prefix) -> bool
    {
        bool mismatch = false;
        bool ok       = observe("inplace_function", [&] {
            F const& f      = *obj[s];
            bool const want = model[s].has_value();
            if (static_cast<bool>(f) != want || (f == nullptr) == want || (nullptr == f) == want || (f != nullptr) != want
                || (nullptr != f) != want) {
                mismatch = true;
                ctx.violation(prop, std::string(prefix) + ":empty-flag", "operator bool / comparison with nullptr differs from the model (slot " + std::to_string(s) + ")");
            }
        });
        if (!ok) {
            ctx.stop = true;
        }
        return !mismatch;
    }

    void observe_all()
    {
        uint64_t sh = hstr(plan.scenario.c_str());
        for (int s = 0; s < pool && !ctx.stop; ++s) {
            if (obj[s] == nullptr) {
                continue;
            }
            if (!check_state(s, "C20", "diff:inplace_function")) {
                resync(s);
            }
            auto* lo = slot_obj(s);
            size_t const got = reg().live_in(lo, lo + sizeof(F));
            if (got != tracked_inside(model[s])) {
                ctx.violation("C03", got > tracked_inside(model[s]) ? "lifetime:leak-inside-owner" : "lifetime:missing-element", std::to_string(got) + " live captured objects inside the wrapper, expected " + std::to_string(tracked_inside(model[s])));
            }
            if (!arena_guards_ok(s)) {
                ctx.violation("C02", "memory:guard-damaged", "guard bytes around the inplace_function were overwritten");
                arena_guards_repair(s);
            }
            ctx.log.s(" |");
            ctx.log.i(model[s].has_value() ? model[s]->id * 100 + model[s]->count : -1);
            sh = mix64(sh ^ (model[s].has_value() ? static_cast<uint64_t>(model[s]->kind * 7 + model[s]->id % 5 + 1) : 0) ^ (static_cast<uint64_t>(s) << 56));
        }
        Base::temporaries_must_be_gone();
        if (g_counting) {
            states().insert(sh);
            transitions().insert(mix64(sh ^ hstr(ctx.op)));
        }
    }

    // builds a wrapper holding a target of the given kind into `dst` through the converting constructor / assignment
    template <typename Dst, typename Apply>
    static void with_target(int kind, int id, Apply&& apply)
    {
        switch (kind) {
        case 0: apply(id % 3 == 0 ? &free0 : (id % 3 == 1 ? &free1 : &free2)); break;
        case 1: apply(SmallFn{id, 0}); break;
        case 2:
            if constexpr (Dst::capacity::value >= 16) {
                apply(BigFn<16>(id, 0));
            }
            break;
        default:
            if constexpr (Dst::capacity::value >= 32) {
                if constexpr (Dst::alignment::value > alignof(etl::max_align_t)) {
                    apply(BigFnOA<Dst::capacity::value, Dst::alignment::value>(id, 0));
                } else {
                    apply(BigFn<Dst::capacity::value>(id, 0));
                }
            }
            break;
        }
    }

    static auto model_for(int kind, int id) -> TargetModel
    {
        if (kind == 0) {
            return TargetModel{0, 900 + id % 3, 0};
        }
        return TargetModel{kind, id, 0};
    }

    void do_call(int a)
    {
        F& f = *obj[a];
        auto& m = model[a];
        int r           = 5;
        int const x     = static_cast<int>(ctx.step % 7) + 1;
        Tracked c(3);
        TrackedMoveOnly mv(42);
        g_calls.clear();
        int ret = 0;
        int const freeBefore[3] = {g_freeCount[0], g_freeCount[1], g_freeCount[2]};
        int const emptyBefore   = g_emptyCount;
        bool const empty        = !m.has_value();
        if (empty && !misuse) {
            skip();
            return;
        }
        bool ok = call(a, empty, false, [&] { ret = static_cast<F const&>(f)(x, r, c, static_cast<TrackedMoveOnly&&>(mv)); });
        if (empty) {
            // an empty wrapper reports through the exception handler and never calls anything
            if (!g_trap.isException && g_trap.entered > 0) {
                ctx.violation("C20", "diff:inplace_function:empty-call-handler", "calling an empty inplace_function did not go through etl::raise<bad_function_call>");
            }
            if (!g_calls.empty() || r != 5 || mv.v != 42) {
                ctx.violation("C20", "diff:inplace_function:empty-called-something", "an empty inplace_function called a target or consumed its arguments");
            }
            return;
        }
        if (!ok) {
            return;
        }
        ++ctx.stateChanging;
        int wantCount = 0;
        if (m->kind == 0) {
            int const fi = m->id - 900;
            wantCount    = freeBefore[fi] + 1;
        } else if (m->kind == 4) {
            wantCount = emptyBefore + 1; // the empty callable counts in a global: it has no state of its own
        } else {
            wantCount = m->count + 1;
            m->count  = wantCount;
        }
        int const wantRet = m->id * 1000 + wantCount * 10 + (x + 3) % 10;
        if (g_calls.size() != 1) {
            ctx.violation("C20", "diff:inplace_function:call-count", "one wrapper call produced " + std::to_string(g_calls.size()) + " target calls");
            return;
        }
        CallRec const& rec = g_calls[0];
        if (rec.id != m->id || rec.count != wantCount) {
            ctx.violation("C20", "diff:inplace_function:wrong-target", "called target " + std::to_string(rec.id) + "#" + std::to_string(rec.count) + " want " + std::to_string(m->id) + "#" + std::to_string(wantCount));
        } else if (rec.x != x || rec.ref != &r || rec.cref != &c || rec.moved != 42 || r != 5 + x || mv.v != kMovedFrom) {
            ctx.violation("C20", "diff:inplace_function:arguments", "arguments were not forwarded with their values / identities / value categories");
        } else if (ret != wantRet) {
            ctx.violation("C20", "diff:inplace_function:result", "returned " + std::to_string(ret) + " want " + std::to_string(wantRet));
        }
        ctx.log.kv("ret", ret);
    }

    void step(Step const& st)
    {
        int const a      = static_cast<int>(st.a % static_cast<uint32_t>(pool));
        int const b      = static_cast<int>(st.b % static_cast<uint32_t>(pool));
        char const* name = ops()[static_cast<size_t>(st.op)].name;
        std::string const op = name;
        begin_op(name, a);
        F& f          = *obj[a];
        auto& m       = model[a];
        int const kind = static_cast<int>(st.k[0] % static_cast<uint64_t>(nkinds));
        int const id  = 1 + static_cast<int>(st.v[0] % 5);
        ctx.log.kv("kind", kind);
        ctx.log.kv("id", id);
        ctx.log.kv("b", b);
        bool const wasEmpty = !m.has_value();
        if (op == "call") {
            do_call(a);
            return;
        }
        if (op == "assign_callable" && st.k[1] % 5 == 0) {
            // an empty class type with non-trivial special members as the target
            bool ok = call(a, false, false, [&] { f = EmptyFn{}; });
            if (ok) {
                m = TargetModel{4, 600, 0};
                ++ctx.stateChanging;
                if (wasEmpty) {
                    ++ctx.boundaryEvents;
                }
                SIM_COUNT("reach.empty_class_callable");
            }
            return;
        }
        if (op == "assign_callable") {
            bool ok = call(a, false, false, [&] { with_target<F>(kind, id, [&](auto&& t) { f = static_cast<decltype(t)&&>(t); }); });
            if (ok) {
                m = model_for(kind, id);
                ++ctx.stateChanging;
                if (wasEmpty) {
                    ++ctx.boundaryEvents;
                }
                count_dyn("reach.callable_kind." + std::to_string(kind));
            }
            return;
        }
        if (op == "assign_null") {
            bool ok = call(a, false, false, [&] { f = nullptr; });
            if (ok) {
                m.reset();
                ++ctx.stateChanging;
                if (!wasEmpty) {
                    ++ctx.boundaryEvents;
                }
            }
            return;
        }
        if (op == "copy_assign") {
            if (obj[b] == nullptr) {
                skip();
                return;
            }
            if (a == b) {
                SIM_COUNT("F6.self_copy_assign");
            }
            bool ok = call(a, false, false, [&] { f = static_cast<F const&>(*obj[b]); });
            if (ok) {
                if (a != b) {
                    m = model[b]; // an equivalent but distinct target: same id and counter value, own state from now on
                }
                ++ctx.stateChanging;
                ++ctx.boundaryEvents;
            }
            return;
        }
        if (op == "move_assign") {
            if (obj[b] == nullptr) {
                skip();
                return;
            }
            if (a == b) {
                // F6: self-move-assignment through an alias. The standard leaves the value "valid but unspecified": the
                // wrapper may end up empty or keep its target, but every captured object must be destroyed exactly
                // once and nothing may be read after its lifetime ended (registry), and what it reports afterwards
                // must be true (a later call reaches a live target or reports bad_function_call)
                SIM_COUNT("F6.self_move_assign");
                F& alias = *obj[b];
                bool ok  = call(a, false, false, [&] { f = static_cast<F&&>(alias); });
                if (ok) {
                    resync(a);
                    ++ctx.boundaryEvents;
                }
                return;
            }
            bool ok = call(a, false, false, [&] { f = static_cast<F&&>(*obj[b]); });
            if (ok) {
                m = model[b];
                model[b].reset(); // a moved-from inplace_function is empty
                SIM_COUNT("F7.moved_from_created");
                ++ctx.stateChanging;
                ++ctx.boundaryEvents;
            } else {
                resync(b);
            }
            return;
        }
        if (op == "swap") {
            if (obj[b] == nullptr) {
                skip();
                return;
            }
            if (a == b) {
                SIM_COUNT("F6.self_swap");
            }
            bool ok = call(a, false, false, [&] {
                if (st.k[1] % 2 == 0) {
                    f.swap(*obj[b]);
                } else {
                    using etl::swap;
                    swap(f, *obj[b]);
                }
            });
            if (ok) {
                if (a != b) {
                    std::swap(model[a], model[b]);
                    ++ctx.boundaryEvents;
                }
                ++ctx.stateChanging;
            } else {
                resync(b);
            }
            return;
        }
        if (op == "recreate") {
            int form = static_cast<int>(st.k[1] % 7);
            if ((form == 3 || form == 4) && (a == b || obj[b] == nullptr)) {
                form = 0;
            }
            ctx.log.kv("form", form);
            int const skind = static_cast<int>(st.k[0] % (SmallCap >= 16 ? 3 : 2));
            destroy(a);
            void* mem = raw(a);
            F* made   = nullptr;
            bool ok   = call(-1, false, false, [&] {
                switch (form) {
                case 1: made = new (mem) F(nullptr); break;
                case 2: with_target<F>(kind, id, [&](auto&& t) { made = new (mem) F(static_cast<decltype(t)&&>(t)); }); break;
                case 3: made = new (mem) F(static_cast<F const&>(*obj[b])); break;
                case 4: made = new (mem) F(static_cast<F&&>(*obj[b])); break;
                case 5: { // converting copy from a smaller capacity
                    FS src;
                    with_target<FS>(skind, id, [&](auto&& t) { src = static_cast<decltype(t)&&>(t); });
                    made = new (mem) F(static_cast<FS const&>(src));
                    // the source of a copy must still call an equivalent target afterwards
                    {
                        int r2 = 5;
                        Tracked c2(3);
                        TrackedMoveOnly mv2(42);
                        int const srcRet = static_cast<FS const&>(src)(1, r2, c2, static_cast<TrackedMoveOnly&&>(mv2));
                        TargetModel const sm = model_for(skind, id);
                        int const wantCount  = sm.kind == 0 ? g_freeCount[sm.id - 900] : 1;
                        if (srcRet != sm.id * 1000 + wantCount * 10 + 4) {
                            LibPause pause;
                            ctx.violation("C20", "diff:inplace_function:source-after-converting-copy", "the source of a converting copy no longer calls its target correctly (returned " + std::to_string(srcRet) + ")");
                        }
                    }
                    break;
                }
                case 6: { // converting move from a smaller capacity
                    FS src;
                    with_target<FS>(skind, id, [&](auto&& t) { src = static_cast<decltype(t)&&>(t); });
                    made = new (mem) F(static_cast<FS&&>(src));
                    if (static_cast<bool>(src)) {
                        LibPause pause;
                        ctx.violation("C20", "diff:inplace_function:moved-from-not-empty", "the source of a converting move is not empty");
                    }
                    break;
                }
                default: made = new (mem) F; break;
                }
            });
            if (!ok) {
                ctx.stop = true;
                return;
            }
            obj[a] = made;
            switch (form) {
            case 2: m = model_for(kind, id); break;
            case 3: m = model[b]; break;
            case 4:
                m = model[b];
                model[b].reset();
                SIM_COUNT("F7.moved_from_created");
                break;
            case 5:
            case 6: m = model_for(skind, id); break;
            default: m.reset(); break;
            }
            ++ctx.stateChanging;
            if (wasEmpty != !m.has_value()) {
                ++ctx.boundaryEvents;
            }
            return;
        }
        skip();
    }

    void run()
    {
        ctx.step = -1;
        ctx.op   = "create";
        // every piece of state a run can read is reset here: a run is a function of its plan only
        g_freeCount[0] = g_freeCount[1] = g_freeCount[2] = 0;
        g_emptyCount                                     = 0;
        g_calls.clear();
        for (int s = 0; s < pool; ++s) {
            void* mem = raw(s);
            guarded(true, [&] { obj[s] = new (mem) F; });
            model[s].reset();
        }
        observe_all();
        ctx.log.nl();
        for (size_t i = 0; i < plan.steps.size() && !ctx.stop; ++i) {
            ctx.step     = static_cast<int>(i);
            g_crash.step = ctx.step;
            step(plan.steps[i]);
            if (ctx.stop) {
                break;
            }
            observe_all();
            ctx.log.nl();
        }
        ctx.op = "destroy";
        if (ctx.stop) {
            reg().reset();
            return;
        }
        for (int s = 0; s < pool; ++s) {
            destroy(s);
        }
    }

    static auto ops() -> std::vector<OpDef> const&
    {
        static std::vector<OpDef> const o = {
            {"call", 14}, {"assign_callable", 10}, {"assign_null", 3}, {"copy_assign", 7}, {"move_assign", 6}, {"swap", 7}, {"recreate", 6},
        };
        return o;
    }
};

// ================================================================================================ reference-like wrappers
// function_ref, reference_wrapper, bind_front, not_fn, invoke: they refer to (or own a copy of) one of three stateful
// targets; every call must reach the right instance exactly once.
// an element type with its own swap (found by argument-dependent lookup): pair / tuple swap their elements through it,
// as std::pair does - never by the generic move-construct-and-assign
inline int g_adlSwaps = 0;

struct Swappy {
    int v = 0;

    Swappy() = default;

    Swappy(int x) // NOLINT
        : v(x)
    {
    }

    explicit operator long long() const { return v; }

    friend void swap(Swappy& a, Swappy& b) noexcept
    {
        ++g_adlSwaps;
        int const t = a.v;
        a.v         = b.v;
        b.v         = t;
    }

    friend auto operator==(Swappy const& a, Swappy const& b) -> bool { return a.v == b.v; }

    friend auto operator!=(Swappy const& a, Swappy const& b) -> bool { return a.v != b.v; }

    friend auto operator<(Swappy const& a, Swappy const& b) -> bool { return a.v < b.v; }

    friend auto operator>(Swappy const& a, Swappy const& b) -> bool { return a.v > b.v; }

    friend auto operator<=(Swappy const& a, Swappy const& b) -> bool { return a.v <= b.v; }

    friend auto operator>=(Swappy const& a, Swappy const& b) -> bool { return a.v >= b.v; }
};

// a three-valued truth type: operator! keeps "unknown" unknown; converts to bool implicitly
struct Tri {
    int state; // 0 no, 1 yes, 2 unknown

    friend auto operator!(Tri t) -> Tri { return Tri{t.state == 2 ? 2 : 1 - t.state}; }

    operator bool() const { return state == 1; } // NOLINT
};

template <typename X>
auto tri_state(X const& x) -> int
{
    if constexpr (std::is_same_v<X, Tri>) {
        return x.state;
    } else {
        return static_cast<bool>(x) ? 1 : 0;
    }
}

struct RefTarget {
    int id;
    int count = 0;
    int data  = 0;

    auto operator()(int x, int& r) -> int
    {
        ++count;
        r += x;
        return id * 100 + count;
    }

    auto operator()(int x, int& r) const -> int
    {
        r += 2 * x;
        return -(id * 100);
    }

    auto member(int x) -> int
    {
        ++count;
        return id * 10 + x;
    }

    [[nodiscard]] auto cmember(int x) const noexcept -> int { return id * 10 - x; }

    // takes its argument by value: an rvalue argument must arrive as an rvalue (moved, not copied)
    auto take(Tracked t) -> int
    {
        ++count;
        return id * 10 + t.v;
    }

    [[nodiscard]] auto is_odd(int x) const -> bool { return (x + id) % 2 != 0; }
};

inline auto plain_add(int a, int b, int c) -> int { return a * 100 + b * 10 + c; }

// takes its first argument by value: a bound argument handed over as an rvalue would be moved from
inline auto take_by_value(Tracked t, int x) -> int { return t.v * 10 + x; }

struct RefDriver : DriverBase<RefDriver> {
    using Base = DriverBase<RefDriver>;
    using FR   = etl::function_ref<int(int, int&)>;
    using FRN  = etl::function_ref<int(int) noexcept>;
    RefTarget target[3] = {{1}, {2}, {3}};
    int bound[3]        = {0, 1, 2}; // which target each pool wrapper refers to
    std::optional<FR> fr[3];
    std::optional<etl::reference_wrapper<RefTarget>> rw[3];

    RefDriver(Plan const& p, Ctx& c)
        : Base(p, c)
    {
    }

    void resync(int /*s*/) { }

    auto check_state(int /*s*/, char const* /*p*/, char const* /*x*/) -> bool { return true; }

    void expect(bool cond, char const* clause, std::string const& detail)
    {
        if (!cond) {
            ctx.violation("C20", clause, detail);
        }
    }

    void run()
    {
        for (int s = 0; s < 3; ++s) {
            fr[s].emplace(target[s]);
            rw[s].emplace(etl::ref(target[s]));
        }
        for (size_t i = 0; i < plan.steps.size() && !ctx.stop; ++i) {
            Step const& st = plan.steps[i];
            ctx.step       = static_cast<int>(i);
            g_crash.step   = ctx.step;
            int const a    = static_cast<int>(st.a % 3);
            int const b    = static_cast<int>(st.b % 3);
            int const t    = static_cast<int>(st.v[0] % 3);
            int const x    = 1 + static_cast<int>(st.v[1] % 5);
            char const* name = ops()[static_cast<size_t>(st.op)].name;
            std::string const op = name;
            begin_op(name, a);
            ctx.log.kv("b", b);
            ctx.log.kv("t", t);
            ctx.log.kv("x", x);
            int const before[3] = {target[0].count, target[1].count, target[2].count};
            auto only_target_called = [&](int which, int times) {
                for (int k = 0; k < 3; ++k) {
                    int const want = before[k] + (k == which ? times : 0);
                    if (target[k].count != want) {
                        return false;
                    }
                }
                return true;
            };
            if (op == "fr_const") {
                // bound through a const lvalue: the const call operator must be selected
                int r   = 1;
                int ret = 0;
                if (call(-1, false, false, [&] {
                        RefTarget const& ct = target[t];
                        FR f(ct);
                        FR g(f);
                        ret = g(x, r);
                    })) {
                    expect(only_target_called(-1, 0) && ret == -(target[t].id * 100) && r == 1 + 2 * x, "diff:function_ref:const-callable", "function_ref bound to a const object did not call the const overload");
                }
            } else if (op == "fr_rebind") {
                call(-1, false, false, [&] { fr[a].emplace(target[t]); });
                bound[a] = t;
                ++ctx.stateChanging;
            } else if (op == "fr_copy") {
                call(-1, false, false, [&] {
                    if (st.k[0] % 2 == 0) {
                        fr[a] = *fr[b]; // copy assignment
                    } else {
                        FR copy(*fr[b]); // copy construction
                        fr[a].emplace(copy);
                        fr[a] = copy;
                    }
                });
                bound[a] = bound[b];
                ++ctx.stateChanging;
                ++ctx.boundaryEvents;
            } else if (op == "fr_call") {
                int r   = 7;
                int ret = 0;
                if (call(-1, false, false, [&] { ret = (*fr[a])(x, r); })) {
                    int const w = bound[a];
                    expect(only_target_called(w, 1), "diff:function_ref:wrong-target", "function_ref did not call the referenced object exactly once");
                    expect(ret == target[w].id * 100 + target[w].count && r == 7 + x, "diff:function_ref:result", "function_ref result / reference argument wrong");
                    ctx.log.kv("ret", ret);
                }
                ++ctx.stateChanging;
            } else if (op == "fr_noexcept_fnptr") {
                // function_ref over a free function and a noexcept member through a lambda
                int ret = 0;
                RefTarget const& ct = target[t];
                auto lam            = [&ct](int v) noexcept -> int { return ct.cmember(v); };
                if (call(-1, false, false, [&] {
                        FRN f(lam);
                        FRN g(f);
                        ret = g(x);
                    })) {
                    expect(ret == target[t].id * 10 - x && only_target_called(-1, 0), "diff:function_ref:noexcept", "function_ref<R(Args...) noexcept> result wrong");
                }
            } else if (op == "rw_rebind") {
                call(-1, false, false, [&] {
                    if (st.k[0] % 2 == 0) {
                        rw[a] = etl::ref(target[t]);
                    } else {
                        rw[a] = etl::ref(etl::ref(target[t])); // ref of a reference_wrapper unwraps
                    }
                });
                ++ctx.stateChanging;
                int r = 0;
                expect(&rw[a]->get() == &target[t] && &static_cast<RefTarget&>(*rw[a]) == &target[t], "diff:reference_wrapper:referent", "reference_wrapper does not refer to the bound object");
                (void)r;
                bound[a] = bound[a];
                // remember the referent through its address
            } else if (op == "rw_copy") {
                RefTarget* was = &rw[b]->get();
                call(-1, false, false, [&] { rw[a] = *rw[b]; });
                expect(&rw[a]->get() == was, "diff:reference_wrapper:copy", "copying a reference_wrapper changed the referent");
                ++ctx.stateChanging;
                ++ctx.boundaryEvents;
            } else if (op == "rw_call") {
                RefTarget* who = &rw[a]->get();
                int w          = -1;
                for (int i = 0; i < 3; ++i) {
                    if (who == &target[i]) {
                        w = i;
                    }
                }
                if (w < 0) {
                    ctx.violation("C20", "diff:reference_wrapper:referent", "reference_wrapper::get() refers to none of the objects it was bound to");
                    ctx.stop = true;
                    return;
                }
                int r          = 1;
                int ret        = 0;
                if (call(-1, false, false, [&] { ret = (*rw[a])(x, r); })) {
                    expect(only_target_called(w, 1) && ret == who->id * 100 + who->count && r == 1 + x, "diff:reference_wrapper:call", "reference_wrapper::operator() did not call the referent (non-const overload) once");
                }
                // cref: the const overload must be selected
                int r2   = 1;
                int ret2 = 0;
                if (call(-1, false, false, [&] { ret2 = etl::cref(*who)(x, r2); })) {
                    expect(ret2 == -(who->id * 100) && r2 == 1 + 2 * x, "diff:reference_wrapper:cref", "cref() did not call the const overload");
                }
                ++ctx.stateChanging;
            } else if (op == "bind_front") {
                // bound by value (a copy is called), by reference_wrapper (the original is called); all four call forms
                int const form = static_cast<int>(st.k[0] % 4);
                ctx.log.kv("form", form);
                int r     = 0;
                int ret   = 0;
                int ret2  = 0;
                bool ok   = call(-1, false, false, [&] {
                    auto byRef = etl::bind_front(&RefTarget::member, etl::ref(target[t]));
                    auto byVal = etl::bind_front(plain_add, x, 2);
                    switch (form) {
                    case 0:
                        ret  = byRef(x);
                        ret2 = byVal(3);
                        break;
                    case 1:
                        ret  = static_cast<decltype(byRef) const&>(byRef)(x);
                        ret2 = static_cast<decltype(byVal) const&>(byVal)(3);
                        break;
                    case 2:
                        ret  = static_cast<decltype(byRef)&&>(byRef)(x);
                        ret2 = static_cast<decltype(byVal)&&>(byVal)(3);
                        break;
                    default:
                        ret  = static_cast<decltype(byRef) const&&>(byRef)(x);
                        ret2 = static_cast<decltype(byVal) const&&>(byVal)(3);
                        break;
                    }
                });
                (void)r;
                if (ok) {
                    expect(only_target_called(t, 1) && ret == target[t].id * 10 + x, "diff:bind_front:reference", "bind_front with a reference_wrapper did not call the original object once");
                    expect(ret2 == x * 100 + 2 * 10 + 3, "diff:bind_front:values", "bind_front did not pass bound then call arguments in order");
                }
                ++ctx.stateChanging;
            } else if (op == "bind_front_lvalue_twice") {
                // calling an lvalue wrapper must pass the bound arguments as lvalues: a second call (and a copy of the
                // wrapper) still sees the bound value
                int r1 = 0;
                int r2 = 0;
                int r3 = 0;
                int r4 = 0;
                bool ok = call(-1, false, false, [&] {
                    auto bf = etl::bind_front(take_by_value, Tracked(x));
                    r1      = bf(1);
                    r2      = bf(2);
                    auto cp = bf;
                    r3      = cp(3);
                    r4      = static_cast<decltype(bf) const&>(bf)(4);
                });
                reg().forgive_outside_arena();
                if (ok) {
                    expect(r1 == x * 10 + 1 && r2 == x * 10 + 2 && r3 == x * 10 + 3 && r4 == x * 10 + 4, "diff:bind_front:bound-argument-consumed", "an lvalue bind_front wrapper did not keep its bound argument across calls");
                }
            } else if (op == "bind_front_copy") {
                // a copy of the target is bound: the original must stay untouched, the copy's state advances per call
                int ret1 = 0;
                int ret2 = 0;
                bool ok  = call(-1, false, false, [&] {
                    auto bf = etl::bind_front(&RefTarget::member, target[t]);
                    ret1    = bf(x);
                    ret2    = bf(x);
                });
                if (ok) {
                    expect(only_target_called(-1, 0), "diff:bind_front:copy-called-original", "bind_front with a by-value object modified the original");
                    expect(ret1 == target[t].id * 10 + x && ret2 == ret1, "diff:bind_front:copy-result", "bind_front by value returned the wrong result");
                }
            } else if (op == "not_fn") {
                int const form = static_cast<int>(st.k[0] % 4);
                ctx.log.kv("form", form);
                bool got = false;
                int calls = 0;
                bool ok  = call(-1, false, false, [&] {
                    auto pred = [&calls, this, t](int v) {
                        ++calls;
                        return target[t].is_odd(v);
                    };
                    auto nf = etl::not_fn(pred);
                    switch (form) {
                    case 0: got = nf(x); break;
                    case 1: got = static_cast<decltype(nf) const&>(nf)(x); break;
                    case 2: got = static_cast<decltype(nf)&&>(nf)(x); break;
                    default: got = static_cast<decltype(nf) const&&>(nf)(x); break;
                    }
                });
                if (ok) {
                    expect(calls == 1 && got == !target[t].is_odd(x), "diff:not_fn", "not_fn did not call the predicate exactly once and negate its result");
                }
                bool got2 = false;
                if (call(-1, false, false, [&] { got2 = etl::not_fn(&RefTarget::is_odd)(target[t], x); })) {
                    expect(got2 == !target[t].is_odd(x), "diff:not_fn:member", "not_fn over a member function pointer returned the wrong result");
                }
                // the result is whatever !f(args...) is - not necessarily bool: a three-valued result type with its own
                // operator! comes back unchanged (std::not_fn returns decltype(!invoke(...)))
                int triState   = -1;
                bool triIsTri  = false;
                if (call(-1, false, false, [&] {
                        auto nt   = etl::not_fn([](int v) { return Tri{v % 3}; });
                        auto r    = nt(x);
                        triIsTri  = std::is_same_v<decltype(r), Tri>;
                        triState  = tri_state(r);
                    })) {
                    expect(triIsTri && triState == tri_state(!Tri{x % 3}), "diff:not_fn:result-type", "not_fn converted the result of operator! (a three-valued type) instead of returning it");
                }
            } else if (op == "invoke") {
                int const form = static_cast<int>(st.k[0] % 10);
                ctx.log.kv("form", form);
                int ret = 0;
                target[t].data = 40 + x;
                if (form >= 7) {
                    // an rvalue class-type argument must be forwarded as an rvalue in every INVOKE case
                    Tracked arg(x);
                    uint64_t const copiesBefore = reg().copies;
                    bool ok = call(-1, false, false, [&] {
                        switch (form) {
                        case 7: ret = etl::invoke(&RefTarget::take, target[t], static_cast<Tracked&&>(arg)); break;
                        case 8: ret = etl::invoke(&RefTarget::take, &target[t], static_cast<Tracked&&>(arg)); break;
                        default: ret = etl::invoke(&RefTarget::take, etl::ref(target[t]), static_cast<Tracked&&>(arg)); break;
                        }
                    });
                    if (ok) {
                        expect(only_target_called(t, 1) && ret == target[t].id * 10 + x, "diff:invoke:member-function", "invoke with a member function pointer did not call the object once");
                        expect(reg().copies == copiesBefore && arg.v == kMovedFrom, "diff:invoke:argument-not-forwarded", "invoke copied an rvalue argument instead of forwarding it");
                    }
                    ++ctx.stateChanging;
                    ++ctx.boundaryEvents;
                    uint64_t sh0 = 0;
                    for (int k = 0; k < 3; ++k) {
                        ctx.log.kv("|", target[k].count);
                        sh0 = mix64(sh0 ^ static_cast<uint64_t>(bound[k] + 1));
                    }
                    ctx.log.nl();
                    continue;
                }
                bool ok = call(-1, false, false, [&] {
                    switch (form) {
                    case 0: ret = etl::invoke(&RefTarget::member, target[t], x); break;
                    case 1: ret = etl::invoke(&RefTarget::member, &target[t], x); break;
                    case 2: ret = etl::invoke(&RefTarget::member, etl::ref(target[t]), x); break;
                    case 3: ret = etl::invoke(&RefTarget::data, target[t]); break;
                    case 4: ret = etl::invoke(&RefTarget::data, &target[t]); break;
                    case 5: ret = etl::invoke(&RefTarget::data, etl::ref(target[t])); break;
                    default: ret = etl::invoke(plain_add, 1, x, 3); break;
                    }
                });
                if (ok) {
                    if (form <= 2) {
                        expect(only_target_called(t, 1) && ret == target[t].id * 10 + x, "diff:invoke:member-function", "invoke with a member function pointer did not call the object once");
                    } else if (form <= 5) {
                        expect(only_target_called(-1, 0) && ret == 40 + x, "diff:invoke:member-data", "invoke with a member data pointer returned the wrong value");
                        bool wrote = false;
                        call(-1, false, false, [&] {
                            etl::invoke(&RefTarget::data, target[t]) = 9;
                            wrote = target[t].data == 9;
                        });
                        expect(wrote, "diff:invoke:member-data-lvalue", "invoke with a member data pointer did not yield an lvalue of the member");
                    } else {
                        expect(ret == 100 + x * 10 + 3, "diff:invoke:function", "invoke of a plain function returned the wrong value");
                    }
                }
                ++ctx.stateChanging;
            } else {
                skip();
            }
            ++ctx.boundaryEvents;
            uint64_t sh = 0;
            for (int k = 0; k < 3; ++k) {
                ctx.log.kv("|", target[k].count);
                uint64_t which = 7;
                for (int i = 0; i < 3; ++i) {
                    if (&rw[k]->get() == &target[i]) {
                        which = static_cast<uint64_t>(i);
                    }
                }
                sh = mix64(sh ^ static_cast<uint64_t>(bound[k] + 1) ^ (which << 8));
            }
            if (g_counting) {
                states().insert(mix64(sh ^ hstr(name)));
            }
            ctx.log.nl();
        }
    }

    static auto ops() -> std::vector<OpDef> const&
    {
        static std::vector<OpDef> const o = {
            {"fr_const", 3}, {"fr_rebind", 5}, {"fr_copy", 5}, {"fr_call", 10}, {"fr_noexcept_fnptr", 3}, {"rw_rebind", 5}, {"rw_copy", 4}, {"rw_call", 8},
            {"bind_front", 6}, {"bind_front_copy", 3}, {"bind_front_lvalue_twice", 3}, {"not_fn", 5}, {"invoke", 8},
        };
        return o;
    }
};

// ================================================================================================ pair / tuple
template <typename A, typename B>
struct PairDriver : DriverBase<PairDriver<A, B>> {
    using Base = DriverBase<PairDriver<A, B>>;
    using Base::begin_op;
    using Base::call;
    using Base::ctx;
    using Base::observe;
    using Base::plan;
    using Base::pool;
    using Base::skip;
    using P = etl::pair<A, B>;
    using M = std::pair<int, int>;
    static constexpr bool copyable = etl::is_copy_constructible_v<A> && etl::is_copy_constructible_v<B>;
    static constexpr bool tracked  = is_tracked_v<A> || is_tracked_v<B>;
    static constexpr size_t nTracked = (is_tracked_v<A> ? 1U : 0U) + (is_tracked_v<B> ? 1U : 0U);

    P* obj[3] = {nullptr, nullptr, nullptr};
    M model[3];
    bool unspec[3] = {false, false, false};

    PairDriver(Plan const& p, Ctx& c)
        : Base(p, c)
    {
    }

    auto raw(int s) -> void* { return arena_prepare(s, sizeof(P), plan.cfg, static_cast<uint64_t>(ctx.step + 1), alignof(P)); }

    void destroy(int s)
    {
        if (obj[s] == nullptr) {
            return;
        }
        auto* lo = slot_obj(s);
        guarded(true, [&] { obj[s]->~P(); });
        if (reg().live_in(lo, lo + sizeof(P)) != 0) {
            ctx.violation("C03", "lifetime:alive-after-owner-destroyed", "element alive inside a destroyed pair");
            reg().forget_range(lo, lo + sizeof(P));
        }
        arena_retire(s);
        obj[s] = nullptr;
    }

    void resync(int s)
    {
        guarded(false, [&] { model[s] = M(static_cast<int>(value_of(obj[s]->first)), static_cast<int>(value_of(obj[s]->second))); });
        unspec[s] = false;
    }

    auto check_state(int s, char const* prop, char const* prefix) -> bool
    {
        bool mismatch = false;
        if (unspec[s]) {
            return true;
        }
        observe("pair", [&] {
            P& p        = *obj[s];
            P const& cp = p;
            using etl::get;
            static_assert(etl::is_same_v<decltype(get<0>(p)), A&> && etl::is_same_v<decltype(get<1>(cp)), B const&>);
            static_assert(etl::is_same_v<decltype(get<0>(static_cast<P&&>(p))), A&&> && etl::is_same_v<decltype(get<1>(static_cast<P const&&>(cp))), B const&&>);
            if (value_of(cp.first) != model[s].first || value_of(cp.second) != model[s].second || &get<0>(p) != &p.first || &get<1>(cp) != &cp.second) {
                mismatch = true;
                ctx.violation(prop, std::string(prefix) + ":elements", "pair elements / get<I> differ from std::pair (slot " + std::to_string(s) + ")");
            }
            auto const& [x, y] = cp; // structured bindings
            if (&x != &cp.first || &y != &cp.second) {
                mismatch = true;
                ctx.violation(prop, std::string(prefix) + ":structured-binding", "structured bindings do not name the pair's elements");
            }
        });
        return !mismatch;
    }

    void observe_all()
    {
        static char const* const names[6] = {"==", "!=", "<", "<=", ">", ">="};
        uint64_t sh = hstr(plan.scenario.c_str());
        for (int s = 0; s < pool; ++s) {
            if (obj[s] == nullptr) {
                continue;
            }
            if (!check_state(s, "C20", "diff:pair")) {
                resync(s);
            }
            if constexpr (tracked) {
                auto* lo = slot_obj(s);
                if (reg().live_in(lo, lo + sizeof(P)) != nTracked) {
                    ctx.violation("C03", "lifetime:leak-inside-owner", "the pair does not hold exactly its two elements alive");
                }
            }
            ctx.log.s(" |");
            ctx.log.i(unspec[s] ? -2 : model[s].first);
            ctx.log.i(unspec[s] ? -2 : model[s].second);
            sh = mix64(sh ^ static_cast<uint64_t>(model[s].first * 16 + model[s].second + 1) ^ (static_cast<uint64_t>(s) << 56));
        }
        for (int x = 0; x < pool; ++x) {
            for (int y = 0; y < pool; ++y) {
                if (obj[x] == nullptr || obj[y] == nullptr || unspec[x] || unspec[y]) {
                    continue;
                }
                bool r[6]{};
                if (!observe("pair-relations", [&] {
                        P const& a = *obj[x];
                        P const& b = *obj[y];
                        r[0]       = a == b;
                        r[1]       = a != b;
                        r[2]       = a < b;
                        r[3]       = a <= b;
                        r[4]       = a > b;
                        r[5]       = a >= b;
                    })) {
                    return;
                }
                // the reference: std::pair over the same comparison semantics (the model stores plain values)
                using RA        = std::conditional_t<std::is_same_v<A, Coarse>, Coarse, int>;
                using RB        = std::conditional_t<std::is_same_v<B, Coarse>, Coarse, int>;
                std::pair<RA, RB> const ma(RA(model[x].first), RB(model[x].second));
                std::pair<RA, RB> const mb(RA(model[y].first), RB(model[y].second));
                bool const w[6] = {ma == mb, ma != mb, ma < mb, ma <= mb, ma > mb, ma >= mb};
                for (int k = 0; k < 6; ++k) {
                    if (r[k] != w[k]) {
                        ctx.violation("C20", std::string("diff:pair:relation:") + names[k], "pair relation differs from std::pair (lexicographic)");
                        return;
                    }
                }
            }
        }
        if constexpr (tracked) {
            Base::temporaries_must_be_gone();
        }
        if (g_counting) {
            states().insert(sh);
            transitions().insert(mix64(sh ^ hstr(ctx.op)));
        }
    }

    void step(Step const& st)
    {
        int const a      = static_cast<int>(st.a % static_cast<uint32_t>(pool));
        int const b      = static_cast<int>(st.b % static_cast<uint32_t>(pool));
        char const* name = ops()[static_cast<size_t>(st.op)].name;
        std::string const op = name;
        begin_op(name, a);
        P& p         = *obj[a];
        int const v0 = static_cast<int>(st.v[0] % 3);
        int const v1 = static_cast<int>(st.v[1] % 3);
        ctx.log.kv("v0", v0);
        ctx.log.kv("v1", v1);
        ctx.log.kv("b", b);
        if (op == "recreate") {
            int form = static_cast<int>(st.k[0] % 8);
            if ((form == 3 || form == 4) && (a == b || obj[b] == nullptr || unspec[b])) {
                form = 0;
            }
            if (form == 7 && !(etl::is_copy_constructible_v<B> && is_tracked_v<B>)) {
                form = 6;
            }
            if (form == 3 && !copyable) {
                form = 4;
                if (a == b || obj[b] == nullptr || unspec[b]) {
                    form = 0;
                }
            }
            if ((form == 2 || form == 5) && !copyable) {
                form = 1;
            }
            ctx.log.kv("form", form);
            destroy(a);
            void* mem = raw(a);
            P* made   = nullptr;
            A ta(v0);
            B tb(v1);
            etl::pair<int, int> conv(v0, v1);
            bool ok = call(-1, false, false, [&] {
                switch (form) {
                case 1: made = new (mem) P(static_cast<A&&>(ta), static_cast<B&&>(tb)); break; // (U1&&, U2&&)
                case 2:
                    if constexpr (copyable) {
                        made = new (mem) P(static_cast<A const&>(ta), static_cast<B const&>(tb)); // (T1 const&, T2 const&)
                    }
                    break;
                case 3:
                    if constexpr (copyable) {
                        made = new (mem) P(static_cast<P const&>(*obj[b]));
                    }
                    break;
                case 4: made = new (mem) P(static_cast<P&&>(*obj[b])); break;
                case 5: made = new (mem) P(static_cast<etl::pair<int, int> const&>(conv)); break; // converting copy
                case 6: made = new (mem) P(static_cast<etl::pair<int, int>&&>(conv)); break;      // converting move
                case 7:
                    // converting move from a pair whose second element is an lvalue reference: the referent must be
                    // copied, not moved from (each element keeps its value category)
                    if constexpr (etl::is_copy_constructible_v<B> && is_tracked_v<B>) {
                        etl::pair<int, B&> src(v0, tb);
                        made = new (mem) P(static_cast<etl::pair<int, B&>&&>(src));
                        if (tb.v != v1) {
                            LibPause pause;
                            ctx.violation("C20", "diff:pair:reference-element-moved-from", "constructing from pair<U1, T&>&& moved from the referent instead of copying it");
                        }
                    }
                    break;
                default: made = new (mem) P(); break;
                }
            });
            if (!ok) {
                ctx.stop = true;
                return;
            }
            obj[a]    = made;
            unspec[a] = false;
            switch (form) {
            case 1:
            case 2:
            case 5:
            case 6:
            case 7: model[a] = M(v0, v1); break;
            case 3: model[a] = model[b]; break;
            case 4:
                model[a]  = model[b];
                unspec[b] = tracked;
                SIM_COUNT("F7.moved_from_created");
                break;
            default: model[a] = M(0, 0); break;
            }
            ++ctx.stateChanging;
            ++ctx.boundaryEvents;
            return;
        }
        if (op == "copy_assign" || op == "move_assign" || op == "convert_assign") {
            if (op != "convert_assign" && (obj[b] == nullptr || unspec[b])) {
                skip();
                return;
            }
            if (op == "copy_assign" && !copyable) {
                skip();
                return;
            }
            if (a == b && op != "convert_assign") {
                // self-move-assignment: the elements are move-assigned to themselves (value unspecified for class types)
                SIM_COUNT(op == "copy_assign" ? "F6.self_copy_assign" : "F6.self_move_assign");
            }
            etl::pair<int, int> conv(v0, v1);
            // converting move assignment from a pair whose second element is an lvalue reference: the referent must be
            // copied from, not moved from
            if constexpr (std::is_copy_assignable_v<B> && is_tracked_v<B>) {
                if (op == "convert_assign" && st.k[0] % 3 == 2) {
                    B referent(v1);
                    bool ok2 = call(a, false, false, [&] {
                        etl::pair<int, B&> src(v0, referent);
                        p = static_cast<etl::pair<int, B&>&&>(src);
                    });
                    if (ok2) {
                        if (referent.v != v1) {
                            ctx.violation("C20", "diff:pair:reference-element-moved-from", "assigning from pair<U1, T&>&& moved from the referent instead of copying it");
                        }
                        model[a]  = M(v0, v1);
                        unspec[a] = false;
                        ++ctx.stateChanging;
                        ++ctx.boundaryEvents;
                    }
                    return;
                }
            }
            // F6: converting assignment from a pair of references that name the target's own elements, crossed. The
            // elements are assigned one after the other (first, then second - which by then reads the new first), as
            // std::pair does; nothing may snapshot the source
            if constexpr (std::is_same_v<A, B> && std::is_copy_assignable_v<A>) {
                if (op == "convert_assign" && st.k[0] % 5 == 4 && !unspec[a]) {
                    SIM_COUNT("F6.pair_assigned_from_references_to_itself");
                    bool ok2 = call(a, false, false, [&] {
                        if (st.k[1] % 2 == 0) {
                            etl::pair<A&, A&> src(p.second, p.first);
                            p = static_cast<etl::pair<A&, A&>&&>(src);
                        } else {
                            etl::pair<A const&, A const&> src(p.second, p.first);
                            p = src;
                        }
                    });
                    if (ok2) {
                        model[a] = M(model[a].second, model[a].second);
                        ++ctx.stateChanging;
                        ++ctx.boundaryEvents;
                    }
                    return;
                }
            }
            bool ok = call(a, false, false, [&] {
                if (op == "copy_assign") {
                    if constexpr (copyable) {
                        p = static_cast<P const&>(*obj[b]);
                    }
                } else if (op == "move_assign") {
                    p = static_cast<P&&>(*obj[b]);
                } else if (st.k[0] % 2 == 0) {
                    p = static_cast<etl::pair<int, int> const&>(conv);
                } else {
                    p = static_cast<etl::pair<int, int>&&>(conv);
                }
            });
            if (ok) {
                if (op == "convert_assign") {
                    model[a] = M(v0, v1);
                } else if (a != b) {
                    model[a] = model[b];
                }
                unspec[a] = false;
                if (op == "move_assign") {
                    unspec[b] = tracked;
                    SIM_COUNT("F7.moved_from_created");
                }
                ++ctx.stateChanging;
                ++ctx.boundaryEvents;
            }
            return;
        }
        if (op == "swap") {
            if (obj[b] == nullptr || unspec[a] || unspec[b]) {
                skip();
                return;
            }
            if (a == b) {
                SIM_COUNT("F6.self_swap");
            }
            int const adlBefore = g_adlSwaps;
            bool ok = call(a, false, false, [&] {
                if (st.k[0] % 2 == 0) {
                    p.swap(*obj[b]);
                } else {
                    using etl::swap;
                    swap(p, *obj[b]);
                }
            });
            if (ok) {
                if constexpr (std::is_same_v<A, Swappy>) {
                    if (g_adlSwaps - adlBefore != 1) {
                        ctx.violation("C20", "diff:pair:element-swap-not-used", "pair::swap did not exchange the element through the element type's own swap (" + std::to_string(g_adlSwaps - adlBefore) + " calls)");
                    }
                }
                if (a != b) {
                    std::swap(model[a], model[b]);
                    ++ctx.boundaryEvents;
                }
                ++ctx.stateChanging;
            }
            return;
        }
        if (op == "write") {
            if (unspec[a]) {
                skip();
                return;
            }
            bool ok = call(a, false, false, [&] {
                using etl::get;
                if (st.k[0] % 2 == 0) {
                    get<0>(p) = A(v0);
                } else {
                    get<1>(p) = B(v1);
                }
            });
            if (ok) {
                if (st.k[0] % 2 == 0) {
                    model[a].first = v0;
                } else {
                    model[a].second = v1;
                }
                ++ctx.stateChanging;
            }
            return;
        }
        if (op == "make_pair") {
            // make_pair decays and (for rvalues) moves; the result must carry the values
            int g0 = -1;
            int g1 = -1;
            A ta(v0);
            B tb(v1);
            bool ok = call(-1, false, false, [&] {
                auto made = etl::make_pair(static_cast<A&&>(ta), static_cast<B&&>(tb));
                static_assert(etl::is_same_v<decltype(made), etl::pair<A, B>>);
                g0 = static_cast<int>(value_of(made.first));
                g1 = static_cast<int>(value_of(made.second));
            });
            if (ok && (g0 != v0 || g1 != v1)) {
                ctx.violation("C20", "diff:pair:make_pair", "make_pair lost a value");
            }
            return;
        }
        skip();
    }

    void run()
    {
        ctx.step = -1;
        ctx.op   = "create";
        for (int s = 0; s < pool; ++s) {
            void* mem = raw(s);
            guarded(true, [&] { obj[s] = new (mem) P(); });
            model[s] = M(0, 0);
        }
        observe_all();
        ctx.log.nl();
        for (size_t i = 0; i < plan.steps.size() && !ctx.stop; ++i) {
            ctx.step     = static_cast<int>(i);
            g_crash.step = ctx.step;
            step(plan.steps[i]);
            if (ctx.stop) {
                break;
            }
            observe_all();
            ctx.log.nl();
        }
        ctx.op = "destroy";
        if (ctx.stop) {
            reg().reset();
            return;
        }
        for (int s = 0; s < pool; ++s) {
            destroy(s);
        }
    }

    static auto ops() -> std::vector<OpDef> const&
    {
        static std::vector<OpDef> const o = {{"recreate", 8}, {"copy_assign", 5}, {"move_assign", 4}, {"convert_assign", 4}, {"swap", 5}, {"write", 5}, {"make_pair", 2}};
        return o;
    }
};

// tuple<A,B,C>: no assignment (a declared move constructor deletes it); construction, swap, get, apply, tuple_cat,
// make_from_tuple, equality
template <typename A, typename B, typename C>
struct TupleDriver : DriverBase<TupleDriver<A, B, C>> {
    using Base = DriverBase<TupleDriver<A, B, C>>;
    using Base::begin_op;
    using Base::call;
    using Base::ctx;
    using Base::observe;
    using Base::plan;
    using Base::pool;
    using Base::skip;
    using T = etl::tuple<A, B, C>;
    using M = std::tuple<int, int, int>;
    static constexpr bool copyable  = etl::is_copy_constructible_v<A> && etl::is_copy_constructible_v<B> && etl::is_copy_constructible_v<C>;
    static constexpr size_t nTracked = (is_tracked_v<A> ? 1U : 0U) + (is_tracked_v<B> ? 1U : 0U) + (is_tracked_v<C> ? 1U : 0U);

    T* obj[3] = {nullptr, nullptr, nullptr};
    M model[3];
    bool unspec[3] = {false, false, false};

    TupleDriver(Plan const& p, Ctx& c)
        : Base(p, c)
    {
    }

    struct FromTuple {
        int a, b, c;

        FromTuple(A const& x, B const& y, C const& z)
            : a(static_cast<int>(value_of(x)))
            , b(static_cast<int>(value_of(y)))
            , c(static_cast<int>(value_of(z)))
        {
        }
    };

    auto raw(int s) -> void* { return arena_prepare(s, sizeof(T), plan.cfg, static_cast<uint64_t>(ctx.step + 1), alignof(T)); }

    void destroy(int s)
    {
        if (obj[s] == nullptr) {
            return;
        }
        auto* lo = slot_obj(s);
        guarded(true, [&] { obj[s]->~T(); });
        if (reg().live_in(lo, lo + sizeof(T)) != 0) {
            ctx.violation("C03", "lifetime:alive-after-owner-destroyed", "element alive inside a destroyed tuple");
            reg().forget_range(lo, lo + sizeof(T));
        }
        arena_retire(s);
        obj[s] = nullptr;
    }

    void resync(int s)
    {
        guarded(false, [&] {
            using etl::get;
            model[s] = M(static_cast<int>(value_of(get<0>(*obj[s]))), static_cast<int>(value_of(get<1>(*obj[s]))), static_cast<int>(value_of(get<2>(*obj[s]))));
        });
        unspec[s] = false;
    }

    auto check_state(int s, char const* prop, char const* prefix) -> bool
    {
        bool mismatch = false;
        if (unspec[s]) {
            return true;
        }
        observe("tuple", [&] {
            using etl::get;
            T& t        = *obj[s];
            T const& ct = t;
            static_assert(etl::is_same_v<decltype(get<0>(t)), A&> && etl::is_same_v<decltype(get<2>(ct)), C const&>);
            static_assert(etl::is_same_v<decltype(get<1>(static_cast<T&&>(t))), B&&>);
            if (value_of(get<0>(ct)) != std::get<0>(model[s]) || value_of(get<1>(ct)) != std::get<1>(model[s]) || value_of(get<2>(ct)) != std::get<2>(model[s])
                || &get<0>(t) != &get<0>(ct)) {
                mismatch = true;
                ctx.violation(prop, std::string(prefix) + ":elements", "tuple elements differ from std::tuple (slot " + std::to_string(s) + ")");
                return;
            }
            // apply passes the elements in order, as lvalues of the tuple's elements
            int sum    = 0;
            bool same  = false;
            etl::apply([&](A const& x, B const& y, C const& z) {
                sum  = static_cast<int>(value_of(x)) * 100 + static_cast<int>(value_of(y)) * 10 + static_cast<int>(value_of(z));
                same = &x == &get<0>(ct) && &y == &get<1>(ct) && &z == &get<2>(ct);
            }, ct);
            if (sum != std::get<0>(model[s]) * 100 + std::get<1>(model[s]) * 10 + std::get<2>(model[s]) || !same) {
                mismatch = true;
                ctx.violation(prop, std::string(prefix) + ":apply", "apply did not pass the tuple's own elements in order");
            }
            // a callable that returns a reference: apply hands that very reference back (decltype(auto) all the way)
            {
                auto&& picked = etl::apply([](A const& x, B const&, C const&) -> A const& { return x; }, ct);
                if (&picked != &get<0>(ct)) {
                    mismatch = true;
                    ctx.violation(prop, std::string(prefix) + ":apply-reference", "apply returned a copy where the callable returns a reference");
                }
            }
            if constexpr (std::is_same_v<A, int> && std::is_same_v<B, int>) {
                // the target is constructed as T(args...), not T{args...}: BagKey(a, b) is a copies of b
                auto const bag = etl::make_from_tuple<BagKey>(etl::tuple<int, int>(1 + std::get<0>(model[s]), std::get<1>(model[s])));
                if (!(bag == BagKey(1 + std::get<0>(model[s]), std::get<1>(model[s])))) {
                    mismatch = true;
                    ctx.violation(prop, std::string(prefix) + ":make_from_tuple-initialisation", "make_from_tuple list-initialised its target");
                }
            }
            auto ft = etl::make_from_tuple<FromTuple>(ct);
            if (ft.a != std::get<0>(model[s]) || ft.b != std::get<1>(model[s]) || ft.c != std::get<2>(model[s])) {
                mismatch = true;
                ctx.violation(prop, std::string(prefix) + ":make_from_tuple", "make_from_tuple passed the wrong values");
            }
            // structured bindings on etl::tuple do not compile (no std::tuple_size / std::tuple_element specialisation):
            // recorded as a known finding by call site; pair (public members) is checked in PairDriver
        });
        return !mismatch;
    }

    void observe_all()
    {
        uint64_t sh = hstr(plan.scenario.c_str());
        for (int s = 0; s < pool; ++s) {
            if (obj[s] == nullptr) {
                continue;
            }
            if (!check_state(s, "C20", "diff:tuple")) {
                resync(s);
            }
            if constexpr (nTracked != 0) {
                auto* lo = slot_obj(s);
                if (reg().live_in(lo, lo + sizeof(T)) != nTracked) {
                    ctx.violation("C03", "lifetime:leak-inside-owner", "the tuple does not hold exactly its elements alive");
                }
            }
            ctx.log.s(" |");
            ctx.log.i(unspec[s] ? -2 : std::get<0>(model[s]) * 100 + std::get<1>(model[s]) * 10 + std::get<2>(model[s]));
            sh = mix64(sh ^ static_cast<uint64_t>(std::get<0>(model[s]) * 100 + std::get<1>(model[s]) * 10 + std::get<2>(model[s]) + 1) ^ (static_cast<uint64_t>(s) << 56));
        }
        for (int x = 0; x < pool; ++x) {
            for (int y = 0; y < pool; ++y) {
                if (obj[x] == nullptr || obj[y] == nullptr || unspec[x] || unspec[y]) {
                    continue;
                }
                bool eq = false;
                bool ne = false;
                uint64_t eqCompares = 0;
                if (!observe("tuple-equality", [&] {
                        uint64_t const c0 = reg().compares;
                        eq         = *obj[x] == *obj[y];
                        eqCompares = reg().compares - c0;
                        ne         = *obj[x] != *obj[y];
                    })) {
                    return;
                }
                if constexpr (is_tracked_v<A> && is_tracked_v<C>) {
                    // like std::tuple: no comparison and no element access after the first pair that differs
                    if (std::get<0>(model[x]) != std::get<0>(model[y]) && eqCompares != 1) {
                        ctx.violation("C20", "diff:tuple:equality-short-circuit", "tuple == compared " + std::to_string(eqCompares) + " instrumented elements although the first pair already differs");
                        return;
                    }
                }
                if (eq != (model[x] == model[y]) || ne != (model[x] != model[y])) {
                    ctx.violation("C20", "diff:tuple:equality", "tuple == / != differs from std::tuple");
                    return;
                }
            }
        }
        if constexpr (nTracked != 0) {
            Base::temporaries_must_be_gone();
        }
        if (g_counting) {
            states().insert(sh);
            transitions().insert(mix64(sh ^ hstr(ctx.op)));
        }
    }

    void step(Step const& st)
    {
        int const a      = static_cast<int>(st.a % static_cast<uint32_t>(pool));
        int const b      = static_cast<int>(st.b % static_cast<uint32_t>(pool));
        char const* name = ops()[static_cast<size_t>(st.op)].name;
        std::string const op = name;
        begin_op(name, a);
        int const v0 = static_cast<int>(st.v[0] % 3);
        int const v1 = static_cast<int>(st.v[1] % 3);
        int const v2 = static_cast<int>(st.v[2] % 3);
        ctx.log.kv("v", v0 * 100 + v1 * 10 + v2);
        ctx.log.kv("b", b);
        if (op == "recreate") {
            int form = static_cast<int>(st.k[0] % 5);
            if ((form == 3 || form == 4) && (a == b || obj[b] == nullptr || unspec[b])) {
                form = 0;
            }
            if (form == 3 && !copyable) {
                form = 0;
            }
            if (form == 2 && !copyable) {
                form = 1;
            }
            ctx.log.kv("form", form);
            destroy(a);
            void* mem = raw(a);
            T* made   = nullptr;
            A ta(v0);
            B tb(v1);
            C tc(v2);
            bool ok = call(-1, false, false, [&] {
                switch (form) {
                case 1: made = new (mem) T(static_cast<A&&>(ta), static_cast<B&&>(tb), static_cast<C&&>(tc)); break;
                case 2:
                    if constexpr (copyable) {
                        made = new (mem) T(static_cast<A const&>(ta), static_cast<B const&>(tb), static_cast<C const&>(tc));
                    }
                    break;
                case 3:
                    if constexpr (copyable) {
                        made = new (mem) T(static_cast<T const&>(*obj[b]));
                    }
                    break;
                case 4: made = new (mem) T(static_cast<T&&>(*obj[b])); break;
                default: made = new (mem) T(); break;
                }
            });
            if (!ok) {
                ctx.stop = true;
                return;
            }
            obj[a]    = made;
            unspec[a] = false;
            switch (form) {
            case 1:
            case 2: model[a] = M(v0, v1, v2); break;
            case 3: model[a] = model[b]; break;
            case 4:
                model[a]  = model[b];
                unspec[b] = nTracked != 0;
                SIM_COUNT("F7.moved_from_created");
                break;
            default: model[a] = M(0, 0, 0); break;
            }
            ++ctx.stateChanging;
            ++ctx.boundaryEvents;
            return;
        }
        if (op == "swap") {
            if (obj[b] == nullptr || unspec[a] || unspec[b]) {
                skip();
                return;
            }
            if (a == b) {
                SIM_COUNT("F6.self_swap");
            }
            bool ok = call(a, false, false, [&] { obj[a]->swap(*obj[b]); });
            if (ok) {
                if (a != b) {
                    std::swap(model[a], model[b]);
                    ++ctx.boundaryEvents;
                }
                ++ctx.stateChanging;
            }
            return;
        }
        if (op == "write") {
            if (unspec[a]) {
                skip();
                return;
            }
            bool ok = call(a, false, false, [&] {
                using etl::get;
                switch (st.k[0] % 3) {
                case 0: get<0>(*obj[a]) = A(v0); break;
                case 1: get<1>(*obj[a]) = B(v1); break;
                default: get<2>(*obj[a]) = C(v2); break;
                }
            });
            if (ok) {
                switch (st.k[0] % 3) {
                case 0: std::get<0>(model[a]) = v0; break;
                case 1: std::get<1>(model[a]) = v1; break;
                default: std::get<2>(model[a]) = v2; break;
                }
                ++ctx.stateChanging;
            }
            return;
        }
        if (op == "tuple_cat") {
            // rvalue arguments only (lvalue arguments do not compile today: known finding)
            // (a move-only element does not compile either: tuple has no deduction guide for it; known finding)
#if defined(__clang__)
            // clang 14 cannot compile etl::tuple_cat (class template argument deduction inside its generic lambda)
            skip();
#else
            if constexpr (copyable) {
                int got[5] = {-1, -1, -1, -1, -1};
                bool ok    = call(-1, false, false, [&] {
                    using etl::get;
                    auto cat = etl::tuple_cat(etl::tuple<A, B, C>(A(v0), B(v1), C(v2)), etl::tuple<int, int>(v2, v0));
                    static_assert(etl::tuple_size_v<decltype(cat)> == 5);
                    got[0] = static_cast<int>(value_of(get<0>(cat)));
                    got[1] = static_cast<int>(value_of(get<1>(cat)));
                    got[2] = static_cast<int>(value_of(get<2>(cat)));
                    got[3] = get<3>(cat);
                    got[4] = get<4>(cat);
                });
                if (ok && (got[0] != v0 || got[1] != v1 || got[2] != v2 || got[3] != v2 || got[4] != v0)) {
                    ctx.violation("C20", "diff:tuple:tuple_cat", "tuple_cat did not concatenate the elements in order");
                }
            } else {
                skip();
            }
#endif
            return;
        }
        skip();
    }

    void run()
    {
        ctx.step = -1;
        ctx.op   = "create";
        for (int s = 0; s < pool; ++s) {
            void* mem = raw(s);
            guarded(true, [&] { obj[s] = new (mem) T(); });
            model[s] = M(0, 0, 0);
        }
        observe_all();
        ctx.log.nl();
        for (size_t i = 0; i < plan.steps.size() && !ctx.stop; ++i) {
            ctx.step     = static_cast<int>(i);
            g_crash.step = ctx.step;
            step(plan.steps[i]);
            if (ctx.stop) {
                break;
            }
            observe_all();
            ctx.log.nl();
        }
        ctx.op = "destroy";
        if (ctx.stop) {
            reg().reset();
            return;
        }
        for (int s = 0; s < pool; ++s) {
            destroy(s);
        }
    }

    static auto ops() -> std::vector<OpDef> const&
    {
        static std::vector<OpDef> const o = {{"recreate", 8}, {"swap", 5}, {"write", 5}, {"tuple_cat", 3}};
        return o;
    }
};

template <typename D>
void add(std::string name, std::vector<std::string> props)
{
    Scenario s;
    s.family   = "fn";
    s.name     = std::move(name);
    s.ops      = D::ops();
    s.props    = std::move(props);
    s.maxSteps = 30;
    // the tuple scenarios skip tuple_cat under clang 14 (it cannot compile it): not comparable between the compilers
    s.compilerNeutral = s.name.rfind("tuple<", 0) != 0;
    s.run      = [](Plan const& p, Ctx& c) {
        D d(p, c);
        d.run();
    };
    registry().push_back(std::move(s));
}

} // namespace

void register_fn_0();
void register_fn_1();

#if SIM_PART == 0
void register_fn_0()
{
    add<FnDriver<8>>("inplace_function<Sig,8>", {"C20", "C03", "C05", "C02"});
    add<FnDriver<16>>("inplace_function<Sig,16>", {"C20", "C03", "C05", "C02"});
    add<FnDriver<32>>("inplace_function<Sig,32>", {"C20", "C03", "C05", "C02"});
    add<FnDriver<64>>("inplace_function<Sig,64>", {"C20", "C03", "C05", "C02"});
    add<FnDriver<64, 64>>("inplace_function<Sig,64,align64>", {"C20", "C03", "C05", "C02"});
    add<RefDriver>("function_ref+reference_wrapper+bind_front+not_fn+invoke", {"C20"});
}

auto main(int argc, char** argv) -> int
{
    register_fn_0();
    register_fn_1();
    return sim::worker_main(argc, argv);
}
#elif SIM_PART == 1
void register_fn_1()
{
    add<PairDriver<int, int>>("pair<int,int>", {"C20"});
    add<PairDriver<sim::Tracked, int>>("pair<Tracked,int>", {"C20", "C03"});
    add<PairDriver<sim::Tracked, sim::Tracked>>("pair<Tracked,Tracked>", {"C20", "C03"});
    add<PairDriver<int, sim::TrackedOA>>("pair<int,TrackedOA>", {"C20", "C03"}); // over-aligned second element
    add<PairDriver<sim::Coarse, int>>("pair<Coarse,int>", {"C20"});             // operator< coarser than operator==
    add<PairDriver<Swappy, int>>("pair<Swappy,int>", {"C20"});                   // element with its own ADL swap
    add<PairDriver<sim::TrackedMoveOnly, sim::Tracked>>("pair<TrackedMoveOnly,Tracked>", {"C20", "C03"});
    add<PairDriver<sim::TrackedCopyOnly, sim::TrackedB>>("pair<TrackedCopyOnly,TrackedB>", {"C20", "C03"});
    add<TupleDriver<int, int, int>>("tuple<int,int,int>", {"C20"});
    add<TupleDriver<sim::Tracked, int, sim::TrackedB>>("tuple<Tracked,int,TrackedB>", {"C20", "C03"});
    add<TupleDriver<sim::TrackedMoveOnly, sim::Tracked, int>>("tuple<TrackedMoveOnly,Tracked,int>", {"C20", "C03"});
    add<TupleDriver<int, sim::TrackedOA, int>>("tuple<int,TrackedOA,int>", {"C20", "C03"}); // over-aligned middle element
}
#endif
