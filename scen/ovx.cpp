// Family `ovx`: optional, variant and expected histories.
// Oracles: differential against std::optional / an (index,value) model with std::variant's ordering (C07),
// lifetime registry (C03), contract (C05: dereferencing an empty optional / wrong alternative / wrong side).
#include <etl/expected.hpp>
#include <etl/inplace_vector.hpp>
#include <etl/optional.hpp>
#include <etl/utility.hpp>
#include <etl/variant.hpp>
#include <etl/vector.hpp>

#if !defined(SIM_PART)
    #define SIM_PART 0
#endif
#if SIM_PART == 0
    #define SIM_MAIN_TU 1
#endif
#include "../sim/composite.hpp"
#include "../sim/driver.hpp"
#include "../sim/worker.hpp"

#include <initializer_list>
#include <optional>
#include <variant>
#include <vector>

namespace {

using namespace sim;

// moving from such a value leaves it in an unspecified state (instrumented types leave a marker, Nest loses its parts)
template <typename X>
inline constexpr bool moved_from_unspecified_v = is_tracked_v<X> || std::is_same_v<X, sim::Nest>;


constexpr int kTemp = kSlots - 1;

// ================================================================================================ optional
template <typename T>
struct OptDriver : DriverBase<OptDriver<T>> {
    using Base = DriverBase<OptDriver<T>>;
    using Base::begin_op;
    using Base::call;
    using Base::ctx;
    using Base::misuse;
    using Base::observe;
    using Base::plan;
    using Base::pool;
    using Base::skip;
    using O = etl::optional<T>;
    using M = std::optional<int>;
    static constexpr bool tracked  = is_tracked_v<T>;
    static constexpr bool copyable = etl::is_copy_constructible_v<T>;
    // the other optional type for converting construction / assignment / mixed comparison
    using U  = etl::conditional_t<tracked, int, long>;
    using OU = etl::optional<U>;

    O* obj[3] = {nullptr, nullptr, nullptr};
    M model[3];
    bool unspec[3] = {false, false, false}; // moved-from: engaged state is known, the value is not

    OptDriver(Plan const& p, Ctx& c)
        : Base(p, c)
    {
    }

    auto raw(int s) -> void* { return arena_prepare(s, sizeof(O), plan.cfg, static_cast<uint64_t>(ctx.step + 1), alignof(O)); }

    void create_default(int s)
    {
        bool const defaultInit = ((plan.cfg.create >> s) & 1U) != 0;
        void* mem              = raw(s);
        guarded(true, [&] {
            if (defaultInit) {
                obj[s] = new (mem) O;
            } else {
                obj[s] = new (mem) O{};
            }
        });
        SIM_COUNT("F3.created_in_dirty_memory");
        model[s].reset();
        unspec[s] = false;
    }

    void destroy(int s)
    {
        if (obj[s] == nullptr) {
            return;
        }
        auto* lo = slot_obj(s);
        guarded(true, [&] { obj[s]->~O(); });
        if constexpr (tracked) {
            if (reg().live_in(lo, lo + sizeof(O)) != 0) {
                ctx.violation("C03", "lifetime:alive-after-owner-destroyed", "value alive inside a destroyed optional");
                reg().forget_range(lo, lo + sizeof(O));
            }
        }
        if (!arena_guards_ok(s)) {
            ctx.violation("C02", "memory:guard-damaged", "guard bytes around the optional were overwritten");
        }
        arena_retire(s);
        obj[s] = nullptr;
    }

    void resync(int s)
    {
        if (obj[s] == nullptr) {
            return;
        }
        guarded(false, [&] {
            if (obj[s]->has_value()) {
                model[s] = static_cast<int>(value_of(**obj[s]));
            } else {
                model[s].reset();
            }
        });
        unspec[s] = false;
    }

    auto check_state(int s, char const* prop, char const* prefix) -> bool
    {
        O& v          = *obj[s];
        M const& m    = model[s];
        bool mismatch = false;
        auto bad      = [&](char const* what, long long got, long long want) {
            mismatch = true;
            ctx.violation(prop, std::string(prefix) + ":" + what, std::string(what) + " got " + std::to_string(got) + " want " + std::to_string(want) + " (slot " + std::to_string(s) + ")");
        };
        bool ok = observe("optional", [&] {
            O const& cv = v;
            if (cv.has_value() != m.has_value() || static_cast<bool>(cv) != m.has_value()) {
                bad("has_value", cv.has_value(), m.has_value());
                return;
            }
            if ((cv.operator->() != nullptr) != m.has_value() || (v.operator->() != nullptr) != m.has_value()) {
                bad("operator->null", cv.operator->() != nullptr, m.has_value());
                return;
            }
            if (!m.has_value() || unspec[s]) {
                return;
            }
            if (value_of(*cv) != *m || value_of(*v) != *m || value_of(*cv.operator->()) != *m) {
                bad("value", value_of(*cv), *m);
                return;
            }
            if (&*cv != cv.operator->() || &*v != v.operator->()) {
                bad("address", 0, 1);
            }
        });
        if (!ok) {
            ctx.stop = true;
        }
        return !mismatch;
    }

    void check_lifetime(int s)
    {
        if constexpr (tracked) {
            auto* lo     = slot_obj(s);
            size_t want  = obj[s]->has_value() ? 1 : 0;
            size_t got   = reg().live_in(lo, lo + sizeof(O));
            if (got != want) {
                ctx.violation("C03", got > want ? "lifetime:leak-inside-owner" : "lifetime:missing-element", std::to_string(got) + " live values inside the optional, engaged=" + std::to_string(want));
            } else if (want == 1 && !reg().is_live(obj[s]->operator->())) {
                ctx.violation("C03", "lifetime:dead-element-in-range", "the engaged value is not alive");
            }
        }
    }

    void check_relations()
    {
        static char const* const names[6] = {"==", "!=", "<", "<=", ">", ">="};
        for (int x = 0; x < pool; ++x) {
            if (obj[x] == nullptr || unspec[x]) {
                continue;
            }
            O const& a  = *obj[x];
            M const& ma = model[x];
            // against nullopt: the forms the type provides (==, synthesised !=, <, both operand orders)
            bool n[6]{};
            if (!observe("nullopt-relations", [&] {
                    n[0] = a == etl::nullopt;
                    n[1] = etl::nullopt == a;
                    n[2] = a != etl::nullopt;
                    n[3] = a < etl::nullopt;
                    n[4] = etl::nullopt < a;
                    n[5] = etl::nullopt != a;
                })) {
                return;
            }
            bool const wn[6] = {ma == std::nullopt, std::nullopt == ma, ma != std::nullopt, ma < std::nullopt, std::nullopt < ma, std::nullopt != ma};
            for (int k = 0; k < 6; ++k) {
                if (n[k] != wn[k]) {
                    ctx.violation("C07", "diff:optional:nullopt-relation", "optional vs nullopt relation #" + std::to_string(k) + " differs from std");
                    return;
                }
            }
            // against a value, both operand orders
            for (int val = 0; val < 3; ++val) {
                T const tv = T(val);
                bool r[12]{};
                if (!observe("value-relations", [&] {
                        r[0]  = a == tv;
                        r[1]  = a != tv;
                        r[2]  = a < tv;
                        r[3]  = a <= tv;
                        r[4]  = a > tv;
                        r[5]  = a >= tv;
                        r[6]  = tv == a;
                        r[7]  = tv != a;
                        r[8]  = tv < a;
                        r[9]  = tv <= a;
                        r[10] = tv > a;
                        r[11] = tv >= a;
                    })) {
                    return;
                }
                bool const w[12] = {ma == val, ma != val, ma < val, ma <= val, ma > val, ma >= val, val == ma, val != ma, val < ma, val <= ma, val > ma, val >= ma};
                for (int k = 0; k < 12; ++k) {
                    if (r[k] != w[k]) {
                        ctx.violation("C07", std::string("diff:optional:value-relation:") + names[k % 6], "optional vs value relation differs from std (value on the " + std::string(k < 6 ? "right" : "left") + ")");
                        return;
                    }
                }
            }
            for (int y = 0; y < pool; ++y) {
                if (obj[y] == nullptr || unspec[y]) {
                    continue;
                }
                O const& b  = *obj[y];
                M const& mb = model[y];
                bool r[6]{};
                if (!observe("relations", [&] {
                        r[0] = a == b;
                        r[1] = a != b;
                        r[2] = a < b;
                        r[3] = a <= b;
                        r[4] = a > b;
                        r[5] = a >= b;
                    })) {
                    return;
                }
                bool const w[6] = {ma == mb, ma != mb, ma < mb, ma <= mb, ma > mb, ma >= mb};
                for (int k = 0; k < 6; ++k) {
                    if (r[k] != w[k]) {
                        ctx.violation("C07", std::string("diff:optional:relation:") + names[k], "optional relation differs from std::optional");
                        return;
                    }
                }
                // mixed optional<T> / optional<U>
                OU const bu = mb.has_value() ? OU(static_cast<U>(*mb)) : OU();
                std::optional<long> const mbu = mb.has_value() ? std::optional<long>(*mb) : std::optional<long>();
                bool q[6]{};
                if (!observe("mixed-relations", [&] {
                        q[0] = a == bu;
                        q[1] = a != bu;
                        q[2] = a < bu;
                        q[3] = a <= bu;
                        q[4] = a > bu;
                        q[5] = a >= bu;
                    })) {
                    return;
                }
                bool const wq[6] = {ma == mbu, ma != mbu, ma < mbu, ma <= mbu, ma > mbu, ma >= mbu};
                for (int k = 0; k < 6; ++k) {
                    if (q[k] != wq[k]) {
                        ctx.violation("C07", std::string("diff:optional:mixed-relation:") + names[k], "optional<T> vs optional<U> relation differs from std");
                        return;
                    }
                }
            }
        }
    }

    void observe_all()
    {
        uint64_t sh = hstr(plan.scenario.c_str());
        for (int s = 0; s < pool && !ctx.stop; ++s) {
            if (obj[s] == nullptr) {
                continue;
            }
            if (!check_state(s, "C07", "diff:optional")) {
                if (ctx.stop) {
                    break;
                }
                resync(s);
            }
            check_lifetime(s);
            if (!arena_guards_ok(s)) {
                ctx.violation("C02", "memory:guard-damaged", "guard bytes around the optional were overwritten");
                arena_guards_repair(s);
            }
            long long shown = -1;
            guarded(false, [&] { shown = obj[s]->has_value() ? (unspec[s] ? -2 : value_of(**obj[s])) : -1; });
            ctx.log.s(" |");
            ctx.log.i(shown);
            sh = mix64(sh ^ static_cast<uint64_t>(shown + 5) ^ (static_cast<uint64_t>(s) << 56));
        }
        if (!ctx.stop) {
            check_relations();
        }
        if constexpr (tracked) {
            Base::temporaries_must_be_gone();
        }
        if (g_counting) {
            states().insert(sh);
            transitions().insert(mix64(sh ^ hstr(ctx.op)));
        }
    }

    void changed(bool before, bool after)
    {
        ++ctx.stateChanging;
        if (before != after) {
            ++ctx.boundaryEvents;
        }
    }

    // after a move the source must really have been moved from (std::optional moves the contained value; a copy
    // instead of a move would leave the source's value intact)
    void source_must_be_moved_from(int b, bool viaAssignmentOntoEngaged)
    {
        if constexpr (tracked) {
            if constexpr (etl::is_same_v<T, TrackedDA>) {
                if (viaAssignmentOntoEngaged) {
                    return; // defaulted move assignment leaves the source's value alone
                }
            }
            if (!model[b].has_value()) {
                return;
            }
            long long got = 0;
            observe("moved-from source", [&] { got = value_of(**obj[b]); });
            if (got != kMovedFrom) {
                ctx.violation("C07", "diff:optional:source-not-moved-from", "a move left the source's value intact: the value was copied, not moved");
            }
        }
    }

    void step(Step const& st)
    {
        int const a      = static_cast<int>(st.a % static_cast<uint32_t>(pool));
        int const b      = static_cast<int>(st.b % static_cast<uint32_t>(pool));
        char const* name = ops()[static_cast<size_t>(st.op)].name;
        std::string const op = name;
        begin_op(name, a);
        O& v             = *obj[a];
        M& m             = model[a];
        bool const was   = m.has_value();
        int const val    = static_cast<int>(st.v[0]);
        bool const flt   = st.flt != 0;
        count_dyn(std::string("op.") + name + (was ? ".engaged" : ".empty"));
        if (unspec[a]) {
            SIM_COUNT("F7.moved_from_reused");
        }
        if (op == "assign_value") {
            ctx.log.kv("v", val);
            int const how = static_cast<int>(st.k[0] % 3);
            if constexpr (copyable) {
                if (how == 1 && was && !unspec[a] && st.k[1] % 4 == 0) {
                    // F6: o = *o, the argument is the contained value itself
                    SIM_COUNT("F6.assign_own_value");
                    ctx.log.s(" own");
                    bool ok2 = call(a, false, false, [&] { v = static_cast<T const&>(*v); });
                    if (ok2) {
                        ++ctx.boundaryEvents;
                    }
                    return;
                }
            }
            T tmp         = T(val);
            bool ok       = call(a, false, false, [&] {
                if (how == 0) {
                    v = static_cast<T&&>(tmp);
                } else if (how == 1) {
                    if constexpr (copyable) {
                        v = static_cast<T const&>(tmp);
                    } else {
                        v = static_cast<T&&>(tmp);
                    }
                } else {
                    v = val; // converting assignment from int
                }
            });
            if (ok) {
                m         = val;
                unspec[a] = false;
                changed(was, true);
            }
            return;
        }
        if (op == "emplace") {
            ctx.log.kv("v", val);
            T* ret  = nullptr;
            bool ok = call(a, false, false, [&] { ret = &v.emplace(val); });
            if (ok) {
                m         = val;
                unspec[a] = false;
                if (ret != v.operator->()) {
                    ctx.violation("C07", "diff:optional:emplace-reference", "emplace did not return a reference to the contained value");
                }
                changed(was, true);
            }
            return;
        }
        if (op == "reset" || op == "assign_nullopt") {
            bool ok = call(a, false, false, [&] {
                if (op == "reset") {
                    v.reset();
                } else {
                    v = etl::nullopt;
                }
            });
            if (ok) {
                m.reset();
                unspec[a] = false;
                changed(was, false);
            }
            return;
        }
        if (op == "copy_assign") {
            if constexpr (copyable) {
                if (obj[b] == nullptr || unspec[b]) {
                    skip();
                    return;
                }
                ctx.log.kv("b", b);
                if (a == b) {
                    SIM_COUNT("F6.self_copy_assign");
                }
                bool ok = call(a, false, false, [&] { v = static_cast<O const&>(*obj[b]); });
                if (ok) {
                    if (a != b) {
                        m = model[b];
                    }
                    unspec[a] = false;
                    changed(was, m.has_value());
                    ++ctx.boundaryEvents;
                }
            } else {
                skip();
            }
            return;
        }
        if (op == "move_assign") {
            if (obj[b] == nullptr || unspec[b]) {
                skip();
                return;
            }
            ctx.log.kv("b", b);
            if (a == b) {
                // F6: self-move-assignment through an alias. As with std::optional the engaged flag cannot change (an
                // engaged optional move-assigns its value to itself); the value is then unspecified for class types
                SIM_COUNT("F6.self_move_assign");
                O& alias = *obj[b];
                bool ok  = call(a, false, false, [&] { v = static_cast<O&&>(alias); });
                if (ok) {
                    unspec[a] = moved_from_unspecified_v<T> && m.has_value();
                    ++ctx.boundaryEvents;
                }
                return;
            }
            bool ok = call(a, false, false, [&] { v = static_cast<O&&>(*obj[b]); });
            if (ok) {
                m         = model[b];
                unspec[a] = false;
                unspec[b] = moved_from_unspecified_v<T> && model[b].has_value(); // std: the source stays engaged, its value is moved-from
                source_must_be_moved_from(b, was);
                SIM_COUNT("F7.moved_from_created");
                changed(was, m.has_value());
                ++ctx.boundaryEvents;
            } else {
                resync(b);
            }
            return;
        }
        if (op == "convert_assign") {
            // from optional<U>, engaged or not, copy and move form
            bool const engaged = st.k[0] % 3 != 0;
            ctx.log.kv("engaged", engaged);
            ctx.log.kv("v", val);
            if constexpr (copyable && is_tracked_v<T>) {
                if (engaged && st.k[2] % 4 == 0) {
                    // from an rvalue optional<T&>: a reference optional is shallow, the referent is copied - never moved
                    // from - whatever the value category of the optional itself
                    T referent(val);
                    bool const viaCtor = st.k[1] % 2 == 0;
                    bool ok2           = call(a, false, false, [&] {
                        etl::optional<T&> ro(referent);
                        if (viaCtor) {
                            O tmp(static_cast<etl::optional<T&>&&>(ro));
                            v = static_cast<O&&>(tmp);
                        } else {
                            v = static_cast<etl::optional<T&>&&>(ro);
                        }
                    });
                    if (ok2) {
                        if (referent.v != val) {
                            ctx.violation("C07", "diff:optional:referent-moved-from", "converting from an rvalue optional<T&> moved from the object it refers to");
                        }
                        m         = val;
                        unspec[a] = false;
                        changed(was, true);
                    }
                    return;
                }
            }
            OU src = engaged ? OU(static_cast<U>(val)) : OU();
            bool ok = call(a, false, false, [&] {
                if (st.k[1] % 2 == 0) {
                    v = static_cast<OU const&>(src);
                } else {
                    v = static_cast<OU&&>(src);
                }
            });
            if (ok) {
                if (engaged) {
                    m = val;
                } else {
                    m.reset();
                }
                unspec[a] = false;
                changed(was, engaged);
                // the source of a converting copy is untouched; the source of a converting move stays engaged (its value is
                // moved-from), exactly as with std::optional
                bool srcHas = false;
                observe("convert-source", [&] { srcHas = src.has_value(); });
                if (srcHas != engaged || (engaged && st.k[1] % 2 == 0 && static_cast<int>(*src) != val)) {
                    ctx.violation("C07", "diff:optional:convert-source", "the source optional<U> of a converting assignment changed its engaged state / value");
                }
            }
            return;
        }
        if (op == "swap") {
            if (obj[b] == nullptr || unspec[a] || unspec[b]) {
                skip();
                return;
            }
            ctx.log.kv("b", b);
            if (a == b) {
                SIM_COUNT("F6.self_swap");
            }
            bool ok = call(a, false, false, [&] {
                if (st.k[0] % 2 == 0) {
                    v.swap(*obj[b]);
                } else {
                    using etl::swap;
                    swap(v, *obj[b]);
                }
            });
            if (ok) {
                if (a != b) {
                    std::swap(model[a], model[b]);
                    ++ctx.boundaryEvents;
                }
                changed(was, model[a].has_value());
            } else {
                resync(b);
            }
            return;
        }
        if (op == "write_through") {
            if (!was && !(flt && misuse)) {
                skip();
                return;
            }
            if (unspec[a]) {
                skip();
                return;
            }
            ctx.log.kv("v", val);
            int const how = static_cast<int>(st.k[0] % 2);
            T wtmp        = T(val); // built before the call: no user code of the harness runs between the call and the handler
            bool ok       = call(a, !was, false, [&] {
                if (how == 0 || !was) {
                    *v = static_cast<T&&>(wtmp);
                } else {
                    *v.operator->() = static_cast<T&&>(wtmp);
                }
            });
            if (ok) {
                m = val;
                ++ctx.stateChanging;
            }
            return;
        }
        if (op == "deref_empty") {
            // F2: the four ref-qualified operator* on a disengaged optional
            if (was || !(flt && misuse)) {
                skip();
                return;
            }
            int const how = static_cast<int>(st.k[0] % 4);
            ctx.log.kv("how", how);
            long long sink = 0;
            O const& cv    = v;
            call(a, true, false, [&] {
                switch (how) {
                case 0: sink = value_of(*cv); break;
                case 1: sink = value_of(*v); break;
                case 2: sink = value_of(*static_cast<O const&&>(cv)); break;
                default: sink = value_of(*static_cast<O&&>(v)); break;
                }
            });
            (void)sink;
            return;
        }
        if (op == "value_or") {
            if (unspec[a]) {
                skip();
                return;
            }
            ctx.log.kv("fallback", val);
            long long got = 0;
            bool const rvalue = st.k[0] % 2 == 1;
            bool ok = true;
            if (!rvalue) {
                if constexpr (copyable) {
                    ok = call(a, false, false, [&] {
                        T r = static_cast<O const&>(v).value_or(val);
                        got = value_of(r);
                    });
                } else {
                    skip();
                    return;
                }
            } else {
                // the && overload moves out of the optional: exercised on a scratch copy / on the object itself for move-only
                if constexpr (copyable) {
                    void* mem = arena_prepare(kTemp, sizeof(O), plan.cfg, 55, alignof(O));
                    ok        = call(-1, false, false, [&] {
                        O* tmp = new (mem) O(static_cast<O const&>(v));
                        {
                            T r = static_cast<O&&>(*tmp).value_or(val);
                            got = value_of(r);
                        }
                        tmp->~O();
                    });
                    arena_retire(kTemp);
                } else {
                    ok = call(a, false, false, [&] {
                        T r = static_cast<O&&>(v).value_or(val);
                        got = value_of(r);
                    });
                    if (ok && was) {
                        unspec[a] = true;
                    }
                }
            }
            if (ok && got != m.value_or(val)) {
                ctx.violation("C07", "diff:optional:value_or", "value_or returned " + std::to_string(got) + " want " + std::to_string(m.value_or(val)));
            }
            ctx.log.kv("ret", got);
            return;
        }
        if (op == "monadic") {
            if (unspec[a]) {
                skip();
                return;
            }
            int calls       = 0;
            long long seen  = -1;
            long long got   = -9;
            int const which = static_cast<int>(st.k[0] % 3);
            ctx.log.kv("which", which);
            bool ok = true;
            if (which == 0) {
                ok = call(a, false, false, [&] {
                    auto r = static_cast<O const&>(v).and_then([&](T const& x) {
                        ++calls;
                        seen = value_of(x);
                        return etl::optional<int>(static_cast<int>(value_of(x)) + 1);
                    });
                    got = r.has_value() ? *r : -1;
                });
                int const wantCalls = was ? 1 : 0;
                long long const want = was ? *m + 1 : -1;
                if (ok && (calls != wantCalls || got != want || (was && seen != *m))) {
                    ctx.violation("C07", "diff:optional:and_then", "and_then called the function " + std::to_string(calls) + " times, result " + std::to_string(got) + " want " + std::to_string(want));
                }
            } else if (which == 1) {
                ok = call(a, false, false, [&] {
                    auto r = v.and_then([&](T& x) {
                        ++calls;
                        seen = value_of(x);
                        return etl::optional<int>(static_cast<int>(value_of(x)) * 2);
                    });
                    got = r.has_value() ? *r : -1;
                });
                long long const want = was ? *m * 2 : -1;
                if (ok && (calls != (was ? 1 : 0) || got != want)) {
                    ctx.violation("C07", "diff:optional:and_then", "and_then(&) result " + std::to_string(got) + " want " + std::to_string(want));
                }
            } else {
                if constexpr (copyable) {
                    ok = call(a, false, false, [&] {
                        O r = static_cast<O const&>(v).or_else([&] {
                            ++calls;
                            return O(T(77));
                        });
                        got = r.has_value() ? value_of(*r) : -1;
                    });
                    long long const want = was ? *m : 77;
                    if (ok && (calls != (was ? 0 : 1) || got != want)) {
                        ctx.violation("C07", "diff:optional:or_else", "or_else called the function " + std::to_string(calls) + " times, result " + std::to_string(got) + " want " + std::to_string(want));
                    }
                } else {
                    skip();
                    return;
                }
            }
            ctx.log.kv("calls", calls);
            ctx.log.kv("ret", got);
            return;
        }
        if (op == "recreate") {
            recreate(a, b, st);
            return;
        }
        skip();
    }

    void recreate(int a, int b, Step const& st)
    {
        int form = static_cast<int>(st.k[0] % 9);
        if ((form == 4 || form == 5) && (a == b || obj[b] == nullptr || unspec[b])) {
            form = 0;
        }
        if (form == 4 && !copyable) {
            form = 5;
            if (a == b || obj[b] == nullptr || unspec[b]) {
                form = 0;
            }
        }
        int const val      = static_cast<int>(st.v[0]);
        bool const engaged = st.k[1] % 3 != 0;
        ctx.log.kv("form", form);
        ctx.log.kv("v", val);
        ctx.log.kv("b", b);
        bool const was = model[a].has_value();
        destroy(a);
        void* mem = raw(a);
        O* made   = nullptr;
        T tmp     = T(val);
        OU src    = engaged ? OU(static_cast<U>(val)) : OU();
        bool ok   = call(-1, false, false, [&] {
            switch (form) {
            case 1: made = new (mem) O(etl::nullopt); break;
            case 2: made = new (mem) O(static_cast<T&&>(tmp)); break;
            case 3: made = new (mem) O(etl::in_place, val); break;
            case 4:
                if constexpr (copyable) {
                    made = new (mem) O(static_cast<O const&>(*obj[b]));
                }
                break;
            case 5: made = new (mem) O(static_cast<O&&>(*obj[b])); break;
            case 6: made = new (mem) O(static_cast<OU const&>(src)); break;
            case 7: made = new (mem) O(static_cast<OU&&>(src)); break;
            case 8: made = new (mem) O(val); break; // converting from int
            default: made = ((plan.cfg.create >> a) & 1U) != 0 ? new (mem) O : new (mem) O{}; break;
            }
        });
        if (!ok) {
            ctx.stop = true;
            return;
        }
        obj[a]    = made;
        unspec[a] = false;
        M& m      = model[a];
        switch (form) {
        case 2:
        case 3:
        case 8: m = val; break;
        case 4: m = model[b]; break;
        case 5:
            m         = model[b];
            unspec[b] = moved_from_unspecified_v<T> && model[b].has_value();
            source_must_be_moved_from(b, false);
            SIM_COUNT("F7.moved_from_created");
            break;
        case 6:
        case 7:
            if (engaged) {
                m = val;
            } else {
                m.reset();
            }
            break;
        default: m.reset(); break;
        }
        changed(was, m.has_value());
    }

    void run()
    {
        ctx.step = -1;
        ctx.op   = "create";
        for (int s = 0; s < pool; ++s) {
            create_default(s);
        }
        observe_all();
        ctx.log.nl();
        for (size_t i = 0; i < plan.steps.size() && !ctx.stop; ++i) {
            ctx.step     = static_cast<int>(i);
            g_crash.step = ctx.step;
            step(plan.steps[i]);
            if (ctx.stop) {
                break;
            }
            observe_all();
            ctx.log.nl();
        }
        ctx.op = "destroy";
        if (ctx.stop) {
            reg().reset();
            return;
        }
        for (int s = 0; s < pool; ++s) {
            destroy(s);
        }
    }

    static auto ops() -> std::vector<OpDef> const&
    {
        static std::vector<OpDef> const o = {
            {"assign_value", 10}, {"emplace", 8}, {"reset", 5},          {"assign_nullopt", 4}, {"copy_assign", 6}, {"move_assign", 5},
            {"convert_assign", 5}, {"swap", 5},   {"write_through", 4}, {"deref_empty", 3},    {"value_or", 4},    {"monadic", 4},
            {"recreate", 6},
        };
        return o;
    }
};

// ================================================================================================ optional<T&>
// a class-type referent: for non-scalar T the optional<T&>::operator=(U&&) overload takes part in overload resolution
struct Cell {
    int v = 0;

    Cell() = default;

    Cell(int x) // NOLINT
        : v(x)
    {
    }

    friend auto operator==(Cell const& a, Cell const& b) -> bool { return a.v == b.v; }

    friend auto operator!=(Cell const& a, Cell const& b) -> bool { return a.v != b.v; }

    friend auto operator+(int a, Cell const& b) -> int { return a + b.v; }
};

inline auto cell_value(int x) -> int { return x; }

inline auto cell_value(Cell const& x) -> int { return x.v; }

template <typename R>
struct OptRefDriver : DriverBase<OptRefDriver<R>> {
    using Base = DriverBase<OptRefDriver<R>>;
    using Base::begin_op;
    using Base::call;
    using Base::ctx;
    using Base::misuse;
    using Base::observe;
    using Base::plan;
    using Base::pool;
    using Base::skip;
    using O    = etl::optional<R&>;
    using OC   = etl::optional<R const&>;
    O* obj[3]  = {nullptr, nullptr, nullptr};
    R target[4] = {R(10), R(11), R(12), R(13)}; // referents
    int bound[3]  = {-1, -1, -1};     // model: index of the referent or -1

    OptRefDriver(Plan const& p, Ctx& c)
        : Base(p, c)
    {
    }

    // The model is re-read from the SUT by comparing addresses, never by pointer arithmetic on what the SUT holds: an
    // optional that refers to none of the referents (only possible after a divergence that has been reported) is modelled
    // as empty, so that what the harness does next does not depend on where the stack happens to be
    void resync(int s)
    {
        bound[s] = -1;
        if (obj[s]->has_value()) {
            R const* p = obj[s]->operator->();
            for (int i = 0; i < 4; ++i) {
                if (p == &target[i]) {
                    bound[s] = i;
                }
            }
        }
    }

    auto check_state(int s, char const* prop, char const* prefix) -> bool
    {
        bool mismatch = false;
        bool ok       = observe("optional<T&>", [&] {
            O const& cv = *obj[s];
            bool const want = bound[s] >= 0;
            if (cv.has_value() != want || static_cast<bool>(cv) != want) {
                mismatch = true;
                ctx.violation(prop, std::string(prefix) + ":has_value", "optional<T&> engaged flag differs");
                return;
            }
            if (want && (&*cv != &target[bound[s]] || cv.operator->() != &target[bound[s]])) {
                mismatch = true;
                ctx.violation(prop, std::string(prefix) + ":referent", "optional<T&> refers to the wrong object");
            }
            if (!want && cv.operator->() != nullptr) {
                mismatch = true;
                ctx.violation(prop, std::string(prefix) + ":referent", "empty optional<T&> has a non-null pointer");
            }
        });
        if (!ok) {
            ctx.stop = true;
        }
        return !mismatch;
    }

    void run()
    {
        ctx.step = -1;
        ctx.op   = "create";
        for (int s = 0; s < pool; ++s) {
            void* mem = arena_prepare(s, sizeof(O), plan.cfg, 1, alignof(O));
            obj[s]    = ((plan.cfg.create >> s) & 1U) != 0 ? new (mem) O : new (mem) O{};
        }
        for (size_t i = 0; i < plan.steps.size() && !ctx.stop; ++i) {
            Step const& st = plan.steps[i];
            ctx.step       = static_cast<int>(i);
            g_crash.step   = ctx.step;
            int const a    = static_cast<int>(st.a % static_cast<uint32_t>(pool));
            int const b    = static_cast<int>(st.b % static_cast<uint32_t>(pool));
            int const t    = static_cast<int>(st.v[0] % 4);
            static char const* const names[] = {"bind", "emplace", "reset", "assign_nullopt", "copy_assign", "swap", "write_through", "deref_empty", "rebind_ctor", "convert_ctor"};
            int const k    = st.op;
            begin_op(names[k], a);
            ctx.log.kv("t", t);
            ctx.log.kv("b", b);
            O& v = *obj[a];
            switch (k) {
            case 0:
                if (call(a, false, false, [&] {
                        if (st.k[1] % 2 == 0) {
                            v = O(target[t]);
                        } else {
                            v = target[t]; // operator=(U&&): must rebind, never assign through
                        }
                    })) {
                    bound[a] = t;
                    ++ctx.stateChanging;
                }
                break;
            case 1:
                if (call(a, false, false, [&] { v.emplace(target[t]); })) {
                    bound[a] = t;
                    ++ctx.stateChanging;
                }
                break;
            case 2:
                if (call(a, false, false, [&] { v.reset(); })) {
                    bound[a] = -1;
                    ++ctx.stateChanging;
                    ++ctx.boundaryEvents;
                }
                break;
            case 3:
                if (call(a, false, false, [&] { v = etl::nullopt; })) {
                    bound[a] = -1;
                    ++ctx.stateChanging;
                }
                break;
            case 4:
                if (call(a, false, false, [&] { v = *obj[b]; })) {
                    bound[a] = bound[b]; // rebinds, never assigns through
                    ++ctx.stateChanging;
                    ++ctx.boundaryEvents;
                }
                break;
            case 5:
                if (call(a, false, false, [&] { v.swap(*obj[b]); })) {
                    std::swap(bound[a], bound[b]);
                    ++ctx.stateChanging;
                }
                break;
            case 6:
                if (bound[a] < 0) {
                    skip();
                    break;
                }
                if (call(a, false, false, [&] { *v = R(100 + static_cast<int>(st.v[1])); })) {
                    if (cell_value(target[bound[a]]) != 100 + static_cast<int>(st.v[1])) {
                        ctx.violation("C07", "diff:optional-ref:write", "writing through optional<T&> did not reach the referent");
                    }
                    target[bound[a]] = R(10 + bound[a]);
                }
                break;
            case 7:
                if (bound[a] >= 0 || st.flt == 0 || !misuse) {
                    skip();
                    break;
                }
                {
                    int sink = 0;
                    call(a, true, false, [&] { sink = cell_value(*v); });
                    (void)sink;
                }
                break;
            case 9: {
                // converting construction optional<R const&>(optional<R&> const&): engaged -> same referent, empty -> empty
                bool has       = false;
                R const* where = nullptr;
                if (call(a, false, false, [&] {
                        OC c(static_cast<O const&>(v));
                        has   = c.has_value();
                        where = c.operator->();
                    })) {
                    if (has != (bound[a] >= 0) || (has && where != &target[bound[a]]) || (!has && where != nullptr)) {
                        ctx.violation("C07", "diff:optional-ref:converting-construction", "optional<T const&> constructed from optional<T&> has the wrong state / referent");
                    }
                }
                break;
            }
            default: {
                obj[a]->~O();
                void* mem = arena_prepare(a, sizeof(O), plan.cfg, i + 2, alignof(O));
                bool const fromOther = st.k[0] % 2 == 0;
                if (fromOther && a != b) {
                    obj[a]   = new (mem) O(*obj[b]);
                    bound[a] = bound[b];
                } else {
                    obj[a]   = new (mem) O(target[t]);
                    bound[a] = t;
                }
                ++ctx.stateChanging;
                break;
            }
            }
            for (int s = 0; s < pool && !ctx.stop; ++s) {
                if (!check_state(s, "C07", "diff:optional-ref")) {
                    resync(s);
                }
                ctx.log.kv("|", bound[s]);
            }
            for (int t2 = 0; t2 < 4; ++t2) {
                if (cell_value(target[t2]) != 10 + t2) {
                    ctx.violation("C07", "diff:optional-ref:assigned-through", "rebinding an optional<T&> modified a referent");
                    target[t2] = R(10 + t2);
                }
            }
            if (g_counting) {
                states().insert(mix64(static_cast<uint64_t>(bound[0] + 2) * 25 + static_cast<uint64_t>(bound[1] + 2) * 5 + static_cast<uint64_t>(bound[2] + 2)));
            }
            ctx.log.nl();
        }
        for (int s = 0; s < pool; ++s) {
            obj[s]->~O();
            arena_retire(s);
        }
    }

    static auto ops() -> std::vector<OpDef> const&
    {
        static std::vector<OpDef> const o = {{"bind", 6}, {"emplace", 4}, {"reset", 3}, {"assign_nullopt", 2}, {"copy_assign", 5}, {"swap", 4}, {"write_through", 4}, {"deref_empty", 2}, {"rebind_ctor", 3}, {"convert_ctor", 3}};
        return o;
    }
};

// ================================================================================================ variant
// compile-time index dispatch
template <size_t N, typename F>
void with_index(size_t i, F&& f)
{
    [&]<size_t... Is>(etl::index_sequence<Is...>) { ((i == Is ? (f(etl::index_constant<Is>{}), 0) : 0), ...); }(etl::make_index_sequence<N>{});
}

struct VModel {
    size_t index = 0;
    int value    = 0;

    friend auto operator==(VModel const& a, VModel const& b) -> bool { return a.index == b.index && a.value == b.value; }

    // std::variant: index first, then the held values
    friend auto operator<(VModel const& a, VModel const& b) -> bool { return a.index != b.index ? a.index < b.index : a.value < b.value; }
};

// a visitor whose call operator is overloaded on the value category of the visitor itself
struct RefQualifiedVisitor {
    int* calls;

    template <typename X>
    auto operator()(X const& /*x*/) & -> int
    {
        ++*calls;
        return 1;
    }

    template <typename X>
    auto operator()(X const& /*x*/) && -> int
    {
        ++*calls;
        return 2;
    }
};

template <typename X>
auto alt_value(X const& x) -> int
{
    if constexpr (etl::is_same_v<X, etl::monostate>) {
        return 0;
    } else if constexpr (etl::is_same_v<X, float>) {
        return x != x ? 3 : static_cast<int>(x); // value code 3 stands for NaN (a partially ordered value)
    } else {
        return static_cast<int>(value_of(x));
    }
}

template <typename X>
auto alt_make(int v) -> X
{
    if constexpr (etl::is_same_v<X, etl::monostate>) {
        return X{};
    } else if constexpr (etl::is_same_v<X, float>) {
        return v % 4 == 3 ? __builtin_nanf("") : static_cast<float>(v % 4);
    } else {
        return X(static_cast<etl::conditional_t<is_tracked_v<X>, int, X>>(v));
    }
}

template <typename... Ts>
struct VarDriver : DriverBase<VarDriver<Ts...>> {
    using Base = DriverBase<VarDriver<Ts...>>;
    using Base::begin_op;
    using Base::call;
    using Base::ctx;
    using Base::misuse;
    using Base::observe;
    using Base::plan;
    using Base::pool;
    using Base::skip;
    using V = etl::variant<Ts...>;
    static constexpr size_t NA      = sizeof...(Ts);
    static constexpr bool anyTracked = (is_tracked_v<Ts> || ...);
    static constexpr bool copyable  = (etl::is_copy_constructible_v<Ts> && ...);
    template <size_t I>
    using Alt = etl::variant_alternative_t<I, V>;
    // with a duplicated alternative type only the index-based interface is usable (as for std::variant)
    template <typename X>
    static constexpr int occurrences = (0 + ... + (etl::is_same_v<X, Ts> ? 1 : 0));
    static constexpr bool uniqueTypes = ((occurrences<Ts> == 1) && ...);

    V* obj[3] = {nullptr, nullptr, nullptr};
    VModel model[3];
    bool unspec[3] = {false, false, false};

    VarDriver(Plan const& p, Ctx& c)
        : Base(p, c)
    {
    }

    static auto clampv(size_t idx, int v) -> int
    {
        int r = v;
        with_index<NA>(idx, [&](auto ic) {
            using X = Alt<decltype(ic)::value>;
            if constexpr (etl::is_same_v<X, etl::monostate>) {
                r = 0;
            } else if constexpr (etl::is_same_v<X, char>) {
                r = v % 100;
            } else if constexpr (etl::is_same_v<X, float>) {
                r = v % 4;
            }
        });
        return r;
    }

    auto raw(int s) -> void* { return arena_prepare(s, sizeof(V), plan.cfg, static_cast<uint64_t>(ctx.step + 1), alignof(V)); }

    void create_default(int s)
    {
        bool const defaultInit = ((plan.cfg.create >> s) & 1U) != 0;
        void* mem              = raw(s);
        guarded(true, [&] {
            if (defaultInit) {
                obj[s] = new (mem) V;
            } else {
                obj[s] = new (mem) V{};
            }
        });
        model[s]  = VModel{0, 0};
        unspec[s] = false;
    }

    void destroy(int s)
    {
        if (obj[s] == nullptr) {
            return;
        }
        auto* lo = slot_obj(s);
        guarded(true, [&] { obj[s]->~V(); });
        if constexpr (anyTracked) {
            if (reg().live_in(lo, lo + sizeof(V)) != 0) {
                ctx.violation("C03", "lifetime:alive-after-owner-destroyed", "alternative alive inside a destroyed variant");
                reg().forget_range(lo, lo + sizeof(V));
            }
        }
        if (!arena_guards_ok(s)) {
            ctx.violation("C02", "memory:guard-damaged", "guard bytes around the variant were overwritten");
        }
        arena_retire(s);
        obj[s] = nullptr;
    }

    void resync(int s)
    {
        if (obj[s] == nullptr) {
            return;
        }
        size_t const idx = obj[s]->index();
        if (idx >= NA) {
            ctx.stop = true;
            return;
        }
        model[s].index = idx;
        guarded(false, [&] { with_index<NA>(idx, [&](auto ic) { model[s].value = alt_value((*obj[s])[ic]); }); });
        unspec[s] = false;
    }

    auto check_state(int s, char const* prop, char const* prefix) -> bool
    {
        V& v            = *obj[s];
        VModel const& m = model[s];
        bool mismatch   = false;
        auto bad        = [&](char const* what, long long got, long long want) {
            mismatch = true;
            ctx.violation(prop, std::string(prefix) + ":" + what, std::string(what) + " got " + std::to_string(got) + " want " + std::to_string(want) + " (slot " + std::to_string(s) + ")");
        };
        bool ok = observe("variant", [&] {
            V const& cv = v;
            if (cv.index() != m.index) {
                bad("index", static_cast<long long>(cv.index()), static_cast<long long>(m.index));
                if (cv.index() >= NA) {
                    ctx.stop = true;
                }
                return;
            }
            // holds_alternative / get_if for every alternative, by index and by type
            [&]<size_t... Is>(etl::index_sequence<Is...>) {
                ((check_alt<Is>(v, m, bad)), ...);
            }(etl::make_index_sequence<NA>{});
        });
        if (!ok) {
            ctx.stop = true;
        }
        return !mismatch;
    }

    template <size_t I, typename Bad>
    void check_alt(V& v, VModel const& m, Bad& bad)
    {
        V const& cv       = v;
        using X           = Alt<I>;
        bool const active = m.index == I;
        auto* pi  = etl::get_if<I>(&v);
        auto* pci = etl::get_if<I>(&cv);
        auto* pt  = pi;
        auto* pct = pci;
        if constexpr (uniqueTypes) {
            if (etl::holds_alternative<X>(cv) != active) {
                bad("holds_alternative", etl::holds_alternative<X>(cv), active);
                return;
            }
            pt  = etl::get_if<X>(&v);
            pct = etl::get_if<X>(&cv);
        }
        if ((pi != nullptr) != active || (pci != nullptr) != active || (pt != nullptr) != active || (pct != nullptr) != active) {
            bad("get_if-null", pi != nullptr, active);
            return;
        }
        if (active) {
            if (pi != pt || pci != pct || static_cast<void const*>(pi) != static_cast<void const*>(pci)) {
                bad("get_if-address", 0, 1);
            }
            if (!unspec[&m - model]) {
                int const got = alt_value(*pci);
                if (got != m.value || alt_value(cv[etl::index_v<I>]) != m.value || alt_value(v[etl::index_v<I>]) != m.value
                    || alt_value(etl::unchecked_get<I>(cv)) != m.value || alt_value(etl::unchecked_get<I>(v)) != m.value) {
                    bad("value", got, m.value);
                }
            }
        }
    }

    void check_lifetime(int s)
    {
        if constexpr (anyTracked) {
            auto* lo    = slot_obj(s);
            size_t want = 0;
            with_index<NA>(obj[s]->index(), [&](auto ic) { want = is_tracked_v<Alt<decltype(ic)::value>> ? 1 : 0; });
            size_t got = reg().live_in(lo, lo + sizeof(V));
            if (got != want) {
                ctx.violation("C03", got > want ? "lifetime:leak-inside-owner" : "lifetime:missing-element", std::to_string(got) + " live alternatives inside the variant, expected " + std::to_string(want));
            }
        }
    }

    struct Visitor {
        std::vector<int>* log;

        template <typename... Xs>
        auto operator()(Xs const&... xs) const -> int
        {
            int sum = 0;
            ((log->push_back(alt_value(xs)), sum += alt_value(xs)), ...);
            ((log->push_back(type_tag<Xs>())), ...);
            return sum;
        }

        template <typename X>
        static auto type_tag() -> int
        {
            int tag = -1;
            int i   = 0;
            ((etl::is_same_v<X, Ts> ? (tag = i, ++i) : ++i), ...);
            return 1000 + tag;
        }
    };

    void check_relations_and_visit()
    {
        static char const* const names[6] = {"==", "!=", "<", "<=", ">", ">="};
        for (int x = 0; x < pool; ++x) {
            if (obj[x] == nullptr || unspec[x]) {
                continue;
            }
            V const& a = *obj[x];
            // single visit: the visitor must see exactly the active alternative, once
            std::vector<int> seen;
            seen.reserve(16);
            int ret = 0;
            if (!observe("visit", [&] { ret = etl::visit(Visitor{&seen}, a); })) {
                return;
            }
            int tagOfIndex = 0;
            with_index<NA>(model[x].index, [&](auto ic) { tagOfIndex = Visitor::template type_tag<Alt<decltype(ic)::value>>(); });
            if (seen.size() != 2 || seen[0] != model[x].value || seen[1] != tagOfIndex || ret != model[x].value) {
                ctx.violation("C07", "diff:variant:visit", "visit did not call the visitor exactly once with the active alternative");
                return;
            }
            // visit together with a variant that has exactly one alternative, in both argument orders, and with two of
            // them: the dispatch must still go by the index of the variant that has a choice
            {
                etl::variant<short> const one(static_cast<short>(7));
                etl::variant<long> const uno(9L);
                std::vector<int> s1;
                std::vector<int> s2;
                std::vector<int> s3;
                s1.reserve(16);
                s2.reserve(16);
                s3.reserve(16);
                int r1 = 0;
                int r2 = 0;
                int r3 = 0;
                if (!observe("visit-with-single-alternative-variant", [&] {
                        r1 = etl::visit(Visitor{&s1}, one, a);
                        r2 = etl::visit(Visitor{&s2}, a, one);
                        r3 = etl::visit(Visitor{&s3}, one, a, uno);
                    })) {
                    return;
                }
                int const val = model[x].value;
                bool const ok1 = s1.size() == 4 && s1[0] == 7 && s1[1] == val && s1[3] == tagOfIndex && r1 == val + 7;
                bool const ok2 = s2.size() == 4 && s2[0] == val && s2[1] == 7 && s2[2] == tagOfIndex && r2 == val + 7;
                bool const ok3 = s3.size() == 6 && s3[0] == 7 && s3[1] == val && s3[2] == 9 && s3[4] == tagOfIndex && r3 == val + 16;
                if (!ok1 || !ok2 || !ok3) {
                    ctx.violation("C07", "diff:variant:visit-mixed-arity", "a visit over this variant and a single-alternative variant did not see the active alternative");
                    return;
                }
            }
            // a class publicly derived from a variant is visited through its variant base (P2162), like std::visit does
            if constexpr (copyable && uniqueTypes) {
                struct Derived : V {
                    explicit Derived(V const& v)
                        : V(v)
                    {
                    }
                };
                std::vector<int> sd;
                sd.reserve(8);
                int rd = 0;
                void* dmem = arena_prepare(kTemp, sizeof(Derived), plan.cfg, 33, alignof(Derived));
                bool okd   = observe("visit-derived-from-variant", [&] {
                    Derived* d = new (dmem) Derived(static_cast<V const&>(a));
                    rd         = etl::visit(Visitor{&sd}, static_cast<Derived const&>(*d));
                    d->~Derived();
                });
                arena_retire(kTemp);
                if (!okd) {
                    return;
                }
                if (sd.size() != 2 || sd[0] != model[x].value || sd[1] != tagOfIndex || rd != model[x].value) {
                    ctx.violation("C07", "diff:variant:visit-derived", "visiting a class derived from the variant did not reach the active alternative of its variant base");
                    return;
                }
            }
            // the visitor itself is forwarded: an rvalue visitor is called through its &&-qualified call operator
            {
                using RefQualified = RefQualifiedVisitor;
                int calls = 0;
                int asRvalue = 0;
                int asLvalue = 0;
                if (!observe("visit-visitor-category", [&] {
                        RefQualified lv{&calls};
                        asRvalue = etl::visit(RefQualified{&calls}, a);
                        asLvalue = etl::visit(lv, a);
                    })) {
                    return;
                }
                if (asRvalue != 2 || asLvalue != 1 || calls != 2) {
                    ctx.violation("C07", "diff:variant:visit-visitor-category", "visit did not call the visitor with the value category it was passed with (std::visit forwards it)");
                    return;
                }
            }
            // visiting an rvalue variant must hand the visitor an rvalue of the active alternative, whatever its index
            if constexpr (copyable) {
                int category = 0;
                void* mem    = arena_prepare(kTemp, sizeof(V), plan.cfg, 31, alignof(V));
                bool okr     = observe("visit-rvalue", [&] {
                    V* tmp = new (mem) V(a);
                    etl::visit(
                        [&](auto&& alt) { category = etl::is_lvalue_reference_v<decltype(alt)> ? 1 : (etl::is_const_v<etl::remove_reference_t<decltype(alt)>> ? 3 : 2); },
                        static_cast<V&&>(*tmp)
                    );
                    tmp->~V();
                });
                arena_retire(kTemp);
                if (!okr) {
                    return;
                }
                if (category != 2) {
                    ctx.violation("C07", "diff:variant:visit-value-category", "visit of an rvalue variant passed the alternative with value category " + std::to_string(category) + " (2 = non-const rvalue expected)");
                    return;
                }
            }
            // visit_with_index
            size_t gotIndex = 99;
            int gotValue    = -1;
            int calls       = 0;
            if (!observe("visit_with_index", [&] {
                    etl::visit_with_index([&](auto param) {
                        ++calls;
                        gotIndex = param.index;
                        gotValue = alt_value(param.value());
                    }, a);
                })) {
                return;
            }
            if (calls != 1 || gotIndex != model[x].index || gotValue != model[x].value) {
                ctx.violation("C07", "diff:variant:visit_with_index", "visit_with_index reported the wrong alternative");
                return;
            }
            for (int y = 0; y < pool; ++y) {
                if (obj[y] == nullptr || unspec[y]) {
                    continue;
                }
                V const& b = *obj[y];
                bool r[6]{};
                if (!observe("variant-relations", [&] {
                        r[0] = a == b;
                        r[1] = a != b;
                        r[2] = a < b;
                        r[3] = a <= b;
                        r[4] = a > b;
                        r[5] = a >= b;
                    })) {
                    return;
                }
                VModel const& ma = model[x];
                VModel const& mb = model[y];
                // std::variant: the index decides unless equal, then the held values are compared with the operator itself
                // (which matters for partially ordered values such as NaN)
                auto decode = [](VModel const& vm) {
                    double d = vm.value;
                    with_index<NA>(vm.index, [&](auto ic) {
                        if constexpr (etl::is_same_v<Alt<decltype(ic)::value>, float>) {
                            if (vm.value == 3) {
                                d = __builtin_nan("");
                            }
                        }
                    });
                    return d;
                };
                double const va = decode(ma);
                double const vb = decode(mb);
                bool const same = ma.index == mb.index;
                bool const w[6] = {
                    same && va == vb,
                    !(same && va == vb),
                    ma.index < mb.index || (same && va < vb),
                    ma.index < mb.index || (same && va <= vb),
                    ma.index > mb.index || (same && va > vb),
                    ma.index > mb.index || (same && va >= vb),
                };
                for (int k = 0; k < 6; ++k) {
                    if (r[k] != w[k]) {
                        ctx.violation("C07", std::string("diff:variant:relation:") + names[k], "variant relation differs from std::variant");
                        return;
                    }
                }
                // two-variant visit
                std::vector<int> seen2;
                seen2.reserve(16);
                int ret2 = 0;
                if (!observe("visit2", [&] { ret2 = etl::visit(Visitor{&seen2}, a, b); })) {
                    return;
                }
                if (seen2.size() != 4 || seen2[0] != ma.value || seen2[1] != mb.value || ret2 != ma.value + mb.value) {
                    ctx.violation("C07", "diff:variant:visit2", "two-variant visit did not see the two active alternatives");
                    return;
                }
            }
        }
    }

    void observe_all()
    {
        uint64_t sh = hstr(plan.scenario.c_str());
        for (int s = 0; s < pool && !ctx.stop; ++s) {
            if (obj[s] == nullptr) {
                continue;
            }
            if (!check_state(s, "C07", "diff:variant")) {
                if (ctx.stop) {
                    break;
                }
                resync(s);
            }
            check_lifetime(s);
            if (!arena_guards_ok(s)) {
                ctx.violation("C02", "memory:guard-damaged", "guard bytes around the variant were overwritten");
                arena_guards_repair(s);
            }
            ctx.log.s(" |");
            ctx.log.u(obj[s]->index());
            int shown = -2;
            if (!unspec[s]) {
                guarded(false, [&] { with_index<NA>(obj[s]->index(), [&](auto ic) { shown = alt_value((*obj[s])[ic]); }); });
            }
            ctx.log.i(shown);
            sh = mix64(sh ^ (obj[s]->index() * 1000 + static_cast<uint64_t>(shown + 5)) ^ (static_cast<uint64_t>(s) << 56));
        }
        if (!ctx.stop) {
            check_relations_and_visit();
        }
        if constexpr (anyTracked) {
            Base::temporaries_must_be_gone();
        }
        if (g_counting) {
            states().insert(sh);
            transitions().insert(mix64(sh ^ hstr(ctx.op)));
        }
    }

    void changed(size_t before, size_t after)
    {
        ++ctx.stateChanging;
        if (before != after) {
            ++ctx.boundaryEvents;
            count_dyn("reach.variant_index_pair." + std::to_string(before) + "->" + std::to_string(after));
        }
    }

    void step(Step const& st)
    {
        int const a      = static_cast<int>(st.a % static_cast<uint32_t>(pool));
        int const b      = static_cast<int>(st.b % static_cast<uint32_t>(pool));
        char const* name = ops()[static_cast<size_t>(st.op)].name;
        std::string const op = name;
        begin_op(name, a);
        V& v             = *obj[a];
        VModel& m        = model[a];
        size_t const was = m.index;
        size_t const to  = static_cast<size_t>(st.k[0] % NA);
        int const val    = clampv(to, static_cast<int>(st.v[0]));
        bool const flt   = st.flt != 0;
        if (unspec[a]) {
            SIM_COUNT("F7.moved_from_reused");
        }
        if (op == "emplace_index" || op == "emplace_type" || op == "assign_value") {
            ctx.log.kv("to", static_cast<long long>(to));
            ctx.log.kv("v", val);
            bool ok = call(a, false, false, [&] {
                with_index<NA>(to, [&](auto ic) {
                    constexpr size_t I = decltype(ic)::value;
                    using X            = Alt<I>;
                    if (op == "emplace_index") {
                        if constexpr (etl::is_same_v<X, etl::monostate>) {
                            v.template emplace<I>();
                        } else {
                            v.template emplace<I>(alt_make<X>(val));
                        }
                    } else if constexpr (!uniqueTypes) {
                        v.template emplace<I>(alt_make<X>(val));
                    } else if (op == "emplace_type") {
                        v.template emplace<X>(alt_make<X>(val));
                    } else {
                        v = alt_make<X>(val); // converting assignment selects the alternative by type
                    }
                });
            });
            if (ok) {
                m         = VModel{to, val};
                unspec[a] = false;
                changed(was, to);
            }
            return;
        }
        if (op == "copy_assign") {
            if constexpr (copyable) {
                if (obj[b] == nullptr || unspec[b]) {
                    skip();
                    return;
                }
                ctx.log.kv("b", b);
                if (a == b) {
                    SIM_COUNT("F6.self_copy_assign");
                }
                bool ok = call(a, false, false, [&] { v = static_cast<V const&>(*obj[b]); });
                if (ok) {
                    if (a != b) {
                        m = model[b];
                    }
                    unspec[a] = false;
                    changed(was, m.index);
                    ++ctx.boundaryEvents;
                }
            } else {
                skip();
            }
            return;
        }
        if (op == "move_assign") {
            if (obj[b] == nullptr || unspec[b]) {
                skip();
                return;
            }
            ctx.log.kv("b", b);
            if (a == b) {
                // F6: self-move-assignment through an alias: same index afterwards (the alternative is move-assigned to
                // itself, as in std::variant); a class-type alternative's value is then unspecified
                SIM_COUNT("F6.self_move_assign");
                V& alias = *obj[b];
                bool ok  = call(a, false, false, [&] { v = static_cast<V&&>(alias); });
                if (ok) {
                    bool selfTracked = false;
                    with_index<NA>(m.index, [&](auto ic) { selfTracked = moved_from_unspecified_v<Alt<decltype(ic)::value>>; });
                    unspec[a] = selfTracked;
                    ++ctx.boundaryEvents;
                }
                return;
            }
            bool ok = call(a, false, false, [&] { v = static_cast<V&&>(*obj[b]); });
            if (ok) {
                m         = model[b];
                unspec[a] = false;
                bool srcTracked = false;
                with_index<NA>(model[b].index, [&](auto ic) { srcTracked = moved_from_unspecified_v<Alt<decltype(ic)::value>>; });
                unspec[b] = srcTracked;
                SIM_COUNT("F7.moved_from_created");
                changed(was, m.index);
                ++ctx.boundaryEvents;
            } else {
                resync(b);
            }
            return;
        }
        if (op == "assign_own_alternative") {
            // F6: v = get<I>(v), the argument lives inside the variant that is being assigned
            if constexpr (copyable && uniqueTypes) {
                if (unspec[a]) {
                    skip();
                    return;
                }
                SIM_COUNT("F6.assign_own_alternative");
                bool ok = call(a, false, false, [&] {
                    with_index<NA>(was, [&](auto ic) {
                        constexpr size_t I = decltype(ic)::value;
                        v                  = etl::unchecked_get<I>(static_cast<V const&>(v));
                    });
                });
                if (ok) {
                    ++ctx.stateChanging;
                }
            } else {
                skip();
            }
            return;
        }
        if (op == "swap") {
            if (obj[b] == nullptr || unspec[a] || unspec[b]) {
                skip();
                return;
            }
            ctx.log.kv("b", b);
            if (a == b) {
                SIM_COUNT("F6.self_swap");
            }
            bool ok = call(a, false, false, [&] {
                using etl::swap;
                swap(v, *obj[b]);
            });
            if (ok) {
                if (a != b) {
                    std::swap(model[a], model[b]);
                    ++ctx.boundaryEvents;
                }
                changed(was, model[a].index);
            } else {
                resync(b);
            }
            return;
        }
        if (op == "write_through") {
            if (unspec[a]) {
                skip();
                return;
            }
            int const nv = clampv(was, static_cast<int>(st.v[0]));
            ctx.log.kv("v", nv);
            bool ok = call(a, false, false, [&] {
                with_index<NA>(was, [&](auto ic) {
                    constexpr size_t I = decltype(ic)::value;
                    using X            = Alt<I>;
                    if constexpr (!etl::is_same_v<X, etl::monostate>) {
                        if (st.k[1] % 3 == 0) {
                            v[etl::index_v<I>] = alt_make<X>(nv);
                        } else if (st.k[1] % 3 == 1) {
                            *etl::get_if<I>(&v) = alt_make<X>(nv);
                        } else {
                            etl::unchecked_get<I>(v) = alt_make<X>(nv);
                        }
                    }
                });
            });
            if (ok) {
                m.value = nv;
                ++ctx.stateChanging;
            }
            return;
        }
        if (op == "wrong_alternative") {
            // F2: operator[] / unchecked_get with an index that is not active
            if (!(flt && misuse) || NA < 2) {
                skip();
                return;
            }
            size_t const asked = (was + 1 + static_cast<size_t>(st.k[0] % (NA - 1))) % NA;
            int const how      = static_cast<int>(st.k[1] % 8);
            ctx.log.kv("asked", static_cast<long long>(asked));
            ctx.log.kv("how", how);
            int sink = 0;
            call(a, true, false, [&] {
                with_index<NA>(asked, [&](auto ic) {
                    constexpr size_t I = decltype(ic)::value;
                    V const& cv        = v;
                    switch (how) {
                    case 0: sink = alt_value(v[etl::index_v<I>]); break;
                    case 1: sink = alt_value(cv[etl::index_v<I>]); break;
                    case 2: sink = alt_value(static_cast<V&&>(v)[etl::index_v<I>]); break;
                    case 3: sink = alt_value(static_cast<V const&&>(cv)[etl::index_v<I>]); break;
                    case 4: sink = alt_value(etl::unchecked_get<I>(v)); break;
                    case 5: sink = alt_value(etl::unchecked_get<I>(cv)); break;
                    case 6: sink = alt_value(etl::unchecked_get<I>(static_cast<V&&>(v))); break;
                    default: sink = alt_value(etl::unchecked_get<I>(static_cast<V const&&>(cv))); break;
                    }
                });
            });
            (void)sink;
            return;
        }
        if (op == "recreate") {
            int form = static_cast<int>(st.k[1] % 6);
            if ((form == 4 || form == 5) && (a == b || obj[b] == nullptr || unspec[b])) {
                form = 0;
            }
            if (form == 4 && !copyable) {
                form = 0;
            }
            ctx.log.kv("form", form);
            ctx.log.kv("to", static_cast<long long>(to));
            ctx.log.kv("v", val);
            destroy(a);
            void* mem = raw(a);
            V* made   = nullptr;
            bool ok   = call(-1, false, false, [&] {
                switch (form) {
                case 1:
                    with_index<NA>(to, [&](auto ic) {
                        constexpr size_t I = decltype(ic)::value;
                        using X            = Alt<I>;
                        if constexpr (etl::is_same_v<X, etl::monostate>) {
                            made = new (mem) V(etl::in_place_index<I>);
                        } else {
                            made = new (mem) V(etl::in_place_index<I>, alt_make<X>(val));
                        }
                    });
                    break;
                case 2:
                    with_index<NA>(to, [&](auto ic) {
                        constexpr size_t I = decltype(ic)::value;
                        using X            = Alt<I>;
                        if constexpr (uniqueTypes) {
                            made = new (mem) V(etl::in_place_type<X>, alt_make<X>(val));
                        } else {
                            made = new (mem) V(etl::in_place_index<I>, alt_make<X>(val));
                        }
                    });
                    break;
                case 3:
                    with_index<NA>(to, [&](auto ic) {
                        constexpr size_t I = decltype(ic)::value;
                        using X            = Alt<I>;
                        if constexpr (uniqueTypes) {
                            made = new (mem) V(alt_make<X>(val));
                        } else {
                            made = new (mem) V(etl::in_place_index<I>, alt_make<X>(val));
                        }
                    });
                    break;
                case 4:
                    if constexpr (copyable) {
                        made = new (mem) V(static_cast<V const&>(*obj[b]));
                    }
                    break;
                case 5: made = new (mem) V(static_cast<V&&>(*obj[b])); break;
                default: made = ((plan.cfg.create >> a) & 1U) != 0 ? new (mem) V : new (mem) V{}; break;
                }
            });
            if (!ok) {
                ctx.stop = true;
                return;
            }
            obj[a]    = made;
            unspec[a] = false;
            switch (form) {
            case 1:
            case 2:
            case 3: m = VModel{to, val}; break;
            case 4: m = model[b]; break;
            case 5: {
                m = model[b];
                bool srcTracked = false;
                with_index<NA>(model[b].index, [&](auto ic) { srcTracked = moved_from_unspecified_v<Alt<decltype(ic)::value>>; });
                unspec[b] = srcTracked;
                bool srcMarker = false;
                with_index<NA>(model[b].index, [&](auto ic) { srcMarker = is_tracked_v<Alt<decltype(ic)::value>>; });
                if (srcMarker) {
                    // move construction must move the active alternative (whatever its index), as std::variant does
                    int got = 0;
                    observe("moved-from source", [&] { with_index<NA>(model[b].index, [&](auto ic) { got = alt_value((*obj[b])[ic]); }); });
                    if (got != kMovedFrom) {
                        ctx.violation("C07", "diff:variant:source-not-moved-from", "move construction left the source alternative intact: it was copied, not moved");
                    }
                }
                SIM_COUNT("F7.moved_from_created");
                break;
            }
            default: m = VModel{0, 0}; break;
            }
            changed(was, m.index);
            return;
        }
        skip();
    }

    void run()
    {
        ctx.step = -1;
        ctx.op   = "create";
        for (int s = 0; s < pool; ++s) {
            create_default(s);
        }
        observe_all();
        ctx.log.nl();
        for (size_t i = 0; i < plan.steps.size() && !ctx.stop; ++i) {
            ctx.step     = static_cast<int>(i);
            g_crash.step = ctx.step;
            step(plan.steps[i]);
            if (ctx.stop) {
                break;
            }
            observe_all();
            ctx.log.nl();
        }
        ctx.op = "destroy";
        if (ctx.stop) {
            reg().reset();
            return;
        }
        for (int s = 0; s < pool; ++s) {
            destroy(s);
        }
    }

    static auto ops() -> std::vector<OpDef> const&
    {
        static std::vector<OpDef> const o = {
            {"emplace_index", 8}, {"emplace_type", 6}, {"assign_value", 8}, {"copy_assign", 6}, {"move_assign", 5},
            {"assign_own_alternative", 3}, {"swap", 5}, {"write_through", 4}, {"wrong_alternative", 3}, {"recreate", 6},
        };
        return o;
    }
};

// ================================================================================================ expected
template <typename T, typename E>
struct ExpDriver : DriverBase<ExpDriver<T, E>> {
    using Base = DriverBase<ExpDriver<T, E>>;
    using Base::begin_op;
    using Base::call;
    using Base::ctx;
    using Base::misuse;
    using Base::observe;
    using Base::plan;
    using Base::pool;
    using Base::skip;
    using X = etl::expected<T, E>;
    static constexpr bool tracked = is_tracked_v<T> || is_tracked_v<E>;
    // the side that is active in a model state is an instrumented type (its moved-from value carries the marker)
    static auto side_tracked(bool hasValue) -> bool { return hasValue ? moved_from_unspecified_v<T> : moved_from_unspecified_v<E>; }

    struct XModel {
        bool has  = true;
        int value = 0;
    };

    X* obj[3] = {nullptr, nullptr, nullptr};
    XModel model[3];
    bool unspec[3] = {false, false, false};

    ExpDriver(Plan const& p, Ctx& c)
        : Base(p, c)
    {
    }

    auto raw(int s) -> void* { return arena_prepare(s, sizeof(X), plan.cfg, static_cast<uint64_t>(ctx.step + 1), alignof(X)); }

    void destroy(int s)
    {
        if (obj[s] == nullptr) {
            return;
        }
        auto* lo = slot_obj(s);
        guarded(true, [&] { obj[s]->~X(); });
        if constexpr (tracked) {
            if (reg().live_in(lo, lo + sizeof(X)) != 0) {
                ctx.violation("C03", "lifetime:alive-after-owner-destroyed", "value alive inside a destroyed expected");
                reg().forget_range(lo, lo + sizeof(X));
            }
        }
        if (!arena_guards_ok(s)) {
            ctx.violation("C02", "memory:guard-damaged", "guard bytes around the expected were overwritten");
        }
        arena_retire(s);
        obj[s] = nullptr;
    }

    void resync(int s)
    {
        if (obj[s] == nullptr) {
            return;
        }
        guarded(false, [&] {
            model[s].has   = obj[s]->has_value();
            model[s].value = static_cast<int>(model[s].has ? value_of(**obj[s]) : value_of(obj[s]->error()));
        });
        unspec[s] = false;
    }

    auto check_state(int s, char const* prop, char const* prefix) -> bool
    {
        X& v            = *obj[s];
        XModel const& m = model[s];
        bool mismatch   = false;
        auto bad        = [&](char const* what, long long got, long long want) {
            mismatch = true;
            ctx.violation(prop, std::string(prefix) + ":" + what, std::string(what) + " got " + std::to_string(got) + " want " + std::to_string(want) + " (slot " + std::to_string(s) + ")");
        };
        bool ok = observe("expected", [&] {
            X const& cv = v;
            if (cv.has_value() != m.has || static_cast<bool>(cv) != m.has) {
                bad("has_value", cv.has_value(), m.has);
                return;
            }
            if ((cv.operator->() != nullptr) != m.has || (v.operator->() != nullptr) != m.has) {
                bad("operator->null", cv.operator->() != nullptr, m.has);
                return;
            }
            if (unspec[s]) {
                return;
            }
            if (m.has) {
                if (value_of(*cv) != m.value || value_of(*v) != m.value || value_of(*cv.operator->()) != m.value) {
                    bad("value", value_of(*cv), m.value);
                }
            } else if (value_of(cv.error()) != m.value || value_of(v.error()) != m.value) {
                bad("error", value_of(cv.error()), m.value);
            }
        });
        if (!ok) {
            ctx.stop = true;
        }
        return !mismatch;
    }

    void observe_all()
    {
        uint64_t sh = hstr(plan.scenario.c_str());
        for (int s = 0; s < pool && !ctx.stop; ++s) {
            if (obj[s] == nullptr) {
                continue;
            }
            if (!check_state(s, "C07", "diff:expected")) {
                if (ctx.stop) {
                    break;
                }
                resync(s);
            }
            if constexpr (tracked) {
                auto* lo          = slot_obj(s);
                size_t const want = obj[s]->has_value() ? (is_tracked_v<T> ? 1U : 0U) : (is_tracked_v<E> ? 1U : 0U);
                size_t const got  = reg().live_in(lo, lo + sizeof(X));
                if (got != want) {
                    ctx.violation("C03", got > want ? "lifetime:leak-inside-owner" : "lifetime:missing-element", std::to_string(got) + " live objects inside the expected, exactly the held side must be alive (" + std::to_string(want) + ")");
                }
            }
            if (!arena_guards_ok(s)) {
                ctx.violation("C02", "memory:guard-damaged", "guard bytes around the expected were overwritten");
                arena_guards_repair(s);
            }
            ctx.log.s(" |");
            ctx.log.i(model[s].has);
            long long shown = -2;
            if (!unspec[s]) {
                guarded(false, [&] { shown = obj[s]->has_value() ? value_of(**obj[s]) : value_of(obj[s]->error()); });
            }
            ctx.log.i(shown);
            sh = mix64(sh ^ (static_cast<uint64_t>(obj[s]->has_value()) * 1000 + static_cast<uint64_t>(shown + 5)) ^ (static_cast<uint64_t>(s) << 56));
        }
        if constexpr (tracked) {
            Base::temporaries_must_be_gone();
        }
        if (g_counting) {
            states().insert(sh);
            transitions().insert(mix64(sh ^ hstr(ctx.op)));
        }
    }

    void changed(bool before, bool after)
    {
        ++ctx.stateChanging;
        if (before != after) {
            ++ctx.boundaryEvents;
        }
    }

    void make(int a, int form, int b, int val)
    {
        void* mem = raw(a);
        X* made   = nullptr;
        bool ok   = call(-1, false, false, [&] {
            switch (form) {
            case 1: made = new (mem) X(etl::in_place, val); break;
            case 2: made = new (mem) X(etl::unexpect, val); break;
            case 3: made = new (mem) X(static_cast<X const&>(*obj[b])); break;
            case 4: made = new (mem) X(static_cast<X&&>(*obj[b])); break;
            default: made = new (mem) X(); break;
            }
        });
        if (!ok) {
            ctx.stop = true;
            return;
        }
        obj[a]    = made;
        unspec[a] = false;
        switch (form) {
        case 1: model[a] = XModel{true, val}; break;
        case 2: model[a] = XModel{false, val}; break;
        case 3: model[a] = model[b]; break;
        case 4:
            model[a]  = model[b];
            unspec[b] = side_tracked(model[b].has);
            SIM_COUNT("F7.moved_from_created");
            break;
        default: model[a] = XModel{true, 0}; break;
        }
    }

    void step(Step const& st)
    {
        int const a      = static_cast<int>(st.a % static_cast<uint32_t>(pool));
        int const b      = static_cast<int>(st.b % static_cast<uint32_t>(pool));
        char const* name = ops()[static_cast<size_t>(st.op)].name;
        std::string const op = name;
        begin_op(name, a);
        X& v           = *obj[a];
        XModel& m      = model[a];
        bool const was = m.has;
        int const val  = static_cast<int>(st.v[0]);
        bool const flt = st.flt != 0;
        ctx.log.kv("v", val);
        ctx.log.kv("b", b);
        if (unspec[a]) {
            SIM_COUNT("F7.moved_from_reused");
        }
        if (op == "recreate") {
            int form = static_cast<int>(st.k[0] % 5);
            if ((form == 3 || form == 4) && (a == b || obj[b] == nullptr || unspec[b])) {
                form = 0;
            }
            ctx.log.kv("form", form);
            destroy(a);
            make(a, form, b, val);
            changed(was, model[a].has);
            return;
        }
        if (op == "copy_assign" || op == "move_assign") {
            if (obj[b] == nullptr || unspec[b]) {
                skip();
                return;
            }
            if (a == b) {
                SIM_COUNT(op == "copy_assign" ? "F6.self_copy_assign" : "F6.self_move_assign");
            }
            bool ok = call(a, false, false, [&] {
                if (op == "copy_assign") {
                    v = static_cast<X const&>(*obj[b]);
                } else {
                    v = static_cast<X&&>(*obj[b]);
                }
            });
            if (ok && a == b && op == "move_assign") {
                // F6: self-move-assignment: the side (value / error) cannot change, a class-type content is unspecified
                unspec[a] = side_tracked(model[a].has);
                ++ctx.boundaryEvents;
                return;
            }
            if (ok) {
                if (a != b) {
                    m = model[b];
                }
                unspec[a] = false;
                if (op == "move_assign") {
                    unspec[b] = side_tracked(model[b].has);
                    SIM_COUNT("F7.moved_from_created");
                }
                changed(was, m.has);
                ++ctx.boundaryEvents;
            } else {
                resync(b);
            }
            return;
        }
        if (op == "emplace") {
            if constexpr (etl::is_nothrow_constructible_v<T, int>) {
                T* ret  = nullptr;
                bool ok = call(a, false, false, [&] { ret = &v.emplace(val); });
                if (ok) {
                    m         = XModel{true, val};
                    unspec[a] = false;
                    if (ret != v.operator->()) {
                        ctx.violation("C07", "diff:expected:emplace-reference", "emplace did not return a reference to the value");
                    }
                    changed(was, true);
                }
            } else {
                skip();
            }
            return;
        }
        if (op == "swap") {
            if (obj[b] == nullptr || unspec[a] || unspec[b]) {
                skip();
                return;
            }
            if (a == b) {
                SIM_COUNT("F6.self_swap");
            }
            bool ok = call(a, false, false, [&] {
                using etl::swap;
                swap(v, *obj[b]);
            });
            if (ok) {
                if (a != b) {
                    std::swap(model[a], model[b]);
                    ++ctx.boundaryEvents;
                }
                changed(was, model[a].has);
            } else {
                resync(b);
            }
            return;
        }
        if (op == "write_through") {
            if (unspec[a]) {
                skip();
                return;
            }
            bool ok = call(a, false, false, [&] {
                if (was) {
                    if (st.k[0] % 2 == 0) {
                        *v = T(val);
                    } else {
                        *v.operator->() = T(val);
                    }
                } else {
                    v.error() = E(val);
                }
            });
            if (ok) {
                m.value = val;
                ++ctx.stateChanging;
            }
            return;
        }
        if (op == "wrong_side") {
            // F2: operator* while holding an error, error() while holding a value; four ref-qualified forms each
            if (!(flt && misuse)) {
                skip();
                return;
            }
            int const how = static_cast<int>(st.k[0] % 4);
            ctx.log.kv("how", how);
            long long sink = 0;
            X const& cv    = v;
            call(a, true, false, [&] {
                if (!was) {
                    switch (how) {
                    case 0: sink = value_of(*cv); break;
                    case 1: sink = value_of(*v); break;
                    case 2: sink = value_of(*static_cast<X const&&>(cv)); break;
                    default: sink = value_of(*static_cast<X&&>(v)); break;
                    }
                } else {
                    switch (how) {
                    case 0: sink = value_of(cv.error()); break;
                    case 1: sink = value_of(v.error()); break;
                    case 2: sink = value_of(static_cast<X const&&>(cv).error()); break;
                    default: sink = value_of(static_cast<X&&>(v).error()); break;
                    }
                }
            });
            (void)sink;
            return;
        }
        if (op == "value_or") {
            if (unspec[a]) {
                skip();
                return;
            }
            long long got = 0;
            bool ok       = call(a, false, false, [&] {
                T r = static_cast<X const&>(v).value_or(val);
                got = value_of(r);
            });
            long long const want = was ? m.value : val;
            if (ok && got != want) {
                ctx.violation("C07", "diff:expected:value_or", "value_or returned " + std::to_string(got) + " want " + std::to_string(want));
            }
            ctx.log.kv("ret", got);
            return;
        }
        if (op == "monadic") {
            if (unspec[a]) {
                skip();
                return;
            }
            int calls     = 0;
            long long got = -9;
            bool gotHas   = false;
            bool const andThen = st.k[0] % 2 == 0;
            bool ok = call(a, false, false, [&] {
                if (andThen) {
                    auto r = v.and_then([&](T& x) {
                        ++calls;
                        return etl::expected<int, E>(etl::in_place, static_cast<int>(value_of(x)) + 1);
                    });
                    gotHas = r.has_value();
                    got    = gotHas ? *r : value_of(r.error());
                } else {
                    auto r = v.or_else([&](E& e) {
                        ++calls;
                        return etl::expected<T, int>(etl::unexpect, static_cast<int>(value_of(e)) + 1);
                    });
                    gotHas = r.has_value();
                    got    = gotHas ? value_of(*r) : r.error();
                }
            });
            if (ok) {
                bool wantHas      = false;
                long long want    = 0;
                int wantCalls     = 0;
                if (andThen) {
                    wantHas   = was;
                    want      = was ? m.value + 1 : m.value;
                    wantCalls = was ? 1 : 0;
                } else {
                    wantHas   = was;
                    want      = was ? m.value : m.value + 1;
                    wantCalls = was ? 0 : 1;
                }
                if (calls != wantCalls || gotHas != wantHas || got != want) {
                    ctx.violation("C07", andThen ? "diff:expected:and_then" : "diff:expected:or_else", "monadic operation: calls " + std::to_string(calls) + " result " + std::to_string(got));
                }
            }
            ctx.log.kv("ret", got);
            return;
        }
        skip();
    }

    void run()
    {
        ctx.step = -1;
        ctx.op   = "create";
        for (int s = 0; s < pool; ++s) {
            make(s, 0, 0, 0);
        }
        observe_all();
        ctx.log.nl();
        for (size_t i = 0; i < plan.steps.size() && !ctx.stop; ++i) {
            ctx.step     = static_cast<int>(i);
            g_crash.step = ctx.step;
            step(plan.steps[i]);
            if (ctx.stop) {
                break;
            }
            observe_all();
            ctx.log.nl();
        }
        ctx.op = "destroy";
        if (ctx.stop) {
            reg().reset();
            return;
        }
        for (int s = 0; s < pool; ++s) {
            destroy(s);
        }
    }

    static auto ops() -> std::vector<OpDef> const&
    {
        static std::vector<OpDef> const o = {
            {"recreate", 10}, {"copy_assign", 6}, {"move_assign", 5}, {"emplace", 6}, {"swap", 5},
            {"write_through", 5}, {"wrong_side", 4}, {"value_or", 4}, {"monadic", 4},
        };
        return o;
    }
};

// ================================================================================================ in-place construction
// An alternative type with both a (count, value) and an initializer_list constructor: in_place / emplace / unexpect must
// direct-non-list-initialise it, exactly as the std types do (parentheses, not braces).
struct Bag {
    int n     = 0;
    int first = 0;

    Bag() = default;

    Bag(int count, int value)
        : n(count)
        , first(value)
    {
    }

    Bag(std::initializer_list<int> il)
        : n(static_cast<int>(il.size()) + 1000)
        , first(il.size() != 0 ? *il.begin() : 0)
    {
    }

    [[nodiscard]] auto digest() const -> int { return n * 10 + first % 10; }
};

struct InitDriver : DriverBase<InitDriver> {
    using Base = DriverBase<InitDriver>;

    InitDriver(Plan const& p, Ctx& c)
        : Base(p, c)
    {
    }

    void resync(int /*s*/) { }

    auto check_state(int /*s*/, char const* /*p*/, char const* /*x*/) -> bool { return true; }

    void run()
    {
        for (size_t i = 0; i < plan.steps.size() && !ctx.stop; ++i) {
            Step const& st = plan.steps[i];
            ctx.step       = static_cast<int>(i);
            g_crash.step   = ctx.step;
            int const cnt  = 2 + static_cast<int>(st.k[0] % 4);
            int const val  = 1 + static_cast<int>(st.v[0] % 7);
            int const want = cnt * 10 + val % 10;
            int const form = st.op;
            begin_op(ops()[static_cast<size_t>(form)].name, 0);
            ctx.log.kv("cnt", cnt);
            ctx.log.kv("val", val);
            int got = -1;
            bool ok = call(-1, false, false, [&] {
                switch (form) {
                case 0: {
                    etl::optional<Bag> o(etl::in_place, cnt, val);
                    got = o->digest();
                    break;
                }
                case 1: {
                    etl::optional<Bag> o;
                    got = o.emplace(cnt, val).digest();
                    break;
                }
                case 2: {
                    etl::variant<int, Bag> v(etl::in_place_index<1>, cnt, val);
                    got = v[etl::index_v<1>].digest();
                    break;
                }
                case 3: {
                    etl::variant<int, Bag> v(etl::in_place_type<Bag>, cnt, val);
                    got = etl::get_if<Bag>(&v)->digest();
                    break;
                }
                case 4: {
                    etl::variant<int, Bag> v;
                    got = v.emplace<1>(cnt, val).digest();
                    got = got == want ? v.emplace<Bag>(cnt, val).digest() : got;
                    break;
                }
                case 5: {
                    etl::expected<Bag, int> e(etl::in_place, cnt, val);
                    got = e->digest();
                    break;
                }
                case 6: {
                    etl::expected<int, Bag> e(etl::unexpect, cnt, val);
                    got = e.error().digest();
                    break;
                }
                default: {
                    // copies and moves of the owner must not re-initialise the alternative from a braced list either
                    etl::variant<int, Bag> v(etl::in_place_index<1>, cnt, val);
                    etl::variant<int, Bag> c(v);
                    etl::variant<int, Bag> m(static_cast<etl::variant<int, Bag>&&>(v));
                    etl::optional<Bag> o(etl::in_place, cnt, val);
                    etl::optional<Bag> oc(o);
                    got = (c[etl::index_v<1>].digest() == want && m[etl::index_v<1>].digest() == want && oc->digest() == want) ? want : -2;
                    break;
                }
                }
            });
            if (ok && got != want) {
                ctx.violation("C07", std::string("diff:in-place-initialisation:") + ops()[static_cast<size_t>(form)].name, "in-place construction did not direct-(non-list-)initialise the alternative: digest " + std::to_string(got) + " want " + std::to_string(want));
            }
            ++ctx.stateChanging;
            ++ctx.boundaryEvents;
            ctx.log.kv("got", got);
            if (g_counting) {
                states().insert(mix64(static_cast<uint64_t>(form * 1000 + want)));
            }
            ctx.log.nl();
        }
    }

    static auto ops() -> std::vector<OpDef> const&
    {
        static std::vector<OpDef> const o = {{"optional_in_place", 1}, {"optional_emplace", 1}, {"variant_in_place_index", 1}, {"variant_in_place_type", 1}, {"variant_emplace", 1}, {"expected_in_place", 1}, {"expected_unexpect", 1}, {"copy_move", 1}};
        return o;
    }
};

template <typename D>
void add(std::string name, bool lifetime)
{
    Scenario s;
    s.family = "ovx";
    s.name   = std::move(name);
    s.ops    = D::ops();
    s.props  = {"C07", "C02", "C05"};
    if (lifetime) {
        s.props.emplace_back("C03");
    }
    s.maxSteps = 30;
    s.run      = [](Plan const& p, Ctx& c) {
        D d(p, c);
        d.run();
    };
    registry().push_back(std::move(s));
}

// (moved_from_unspecified_v is defined near the top)
// ================================================================================================ addressof
// An element type that overloads unary operator& (the COM / smart-pointer idiom: &p yields the inner pointer). Owners
// must reach their elements with addressof; a plain & constructs or destroys something else - typically nothing, and
// the element leaks. The harness itself never applies & to such an element.
struct TrackedAmp : Tracked {
    using Tracked::Tracked;

    auto operator&() -> int* { return std::addressof(this->v); }

    auto operator&() const -> int const* { return std::addressof(this->v); }
};

// A UNION with user-provided special members: not a class in the sense of is_class, but an object with a lifetime all the
// same - it must be constructed and destroyed like any other element.
union TrackedUnion {
    int v;
    unsigned char bytes[4];

    TrackedUnion()
        : v(0)
    {
        reg().on_construct(this);
    }

    TrackedUnion(int x) // NOLINT
        : v(x)
    {
        reg().on_construct(this);
    }

    TrackedUnion(TrackedUnion const& o)
        : v(o.v)
    {
        reg().need_live(&o, "copy-from-dead");
        reg().on_construct(this);
    }

    TrackedUnion(TrackedUnion&& o) noexcept
        : v(o.v)
    {
        reg().need_live(&o, "move-from-dead");
        reg().on_construct(this);
    }

    auto operator=(TrackedUnion const& o) -> TrackedUnion&
    {
        reg().need_live(this, "assign-to-dead");
        v = o.v;
        return *this;
    }

    ~TrackedUnion() { reg().on_destroy(this); }
};

template <typename E>
struct OddElementDriver : DriverBase<OddElementDriver<E>> {
    using Base = DriverBase<OddElementDriver<E>>;
    using Base::begin_op;
    using Base::call;
    using Base::ctx;
    using Base::observe;
    using Base::plan;
    using Base::skip;
    using O    = etl::optional<E>;
    using V    = etl::variant<int, E>;
    using X    = etl::expected<E, int>;
    using SV   = etl::static_vector<E, 3>;
    using IV   = etl::inplace_vector<E, 3>;

    O* o   = nullptr;
    V* v   = nullptr;
    X* x   = nullptr;
    SV* sv = nullptr;
    IV* iv = nullptr;
    // model: the values held (empty / one / up to three)
    std::vector<int> m[5];

    OddElementDriver(Plan const& p, Ctx& c)
        : Base(p, c)
    {
    }

    void resync(int) { }

    auto check_state(int, char const*, char const*) -> bool { return true; }

    template <typename T>
    auto place(int slot, uint64_t salt) -> void*
    {
        return arena_prepare(slot, sizeof(T), plan.cfg, salt, alignof(T));
    }

    void create(int k, uint64_t salt)
    {
        call(-1, false, false, [&] {
            switch (k) {
            case 0: o = new (place<O>(0, salt)) O{}; break;
            case 1: v = new (place<V>(1, salt)) V{}; break;
            case 2: x = new (place<X>(2, salt)) X(etl::unexpect, 1); break;
            case 3: sv = new (place<SV>(3, salt)) SV{}; break;
            default: iv = new (place<IV>(4, salt)) IV{}; break;
            }
        });
        m[k].clear();
    }

    void destroy(int k)
    {
        guarded(true, [&] {
            switch (k) {
            case 0: o->~O(); break;
            case 1: v->~V(); break;
            case 2: x->~X(); break;
            case 3: sv->~SV(); break;
            default: iv->~IV(); break;
            }
        });
        auto* lo = slot_obj(k);
        if (reg().live_in(lo, lo + kSlotBytes / 2) != 0) {
            ctx.violation("C03", "lifetime:alive-after-owner-destroyed", "an element that overloads operator& is still alive after its owner was destroyed");
            reg().forget_range(lo, lo + kSlotBytes / 2);
        }
        arena_retire(k);
    }

    void step(Step const& st)
    {
        int const k      = static_cast<int>(st.a % 5);
        char const* name = ops()[static_cast<size_t>(st.op)].name;
        std::string const op = name;
        begin_op(name, k);
        int const val = 1 + static_cast<int>(static_cast<uint64_t>(st.v[0]) % 7);
        ctx.log.kv("v", val);
        if (op == "recreate") {
            destroy(k);
            create(k, static_cast<uint64_t>(ctx.step) + 2);
            ++ctx.stateChanging;
            ++ctx.boundaryEvents;
            return;
        }
        if (op == "set") {
            bool ok = call(k, false, false, [&] {
                switch (k) {
                case 0:
                    if (st.k[0] % 2 == 0) {
                        *o = E(val);
                    } else {
                        o->emplace(val);
                    }
                    break;
                case 1:
                    if (st.k[0] % 2 == 0) {
                        *v = E(val);
                    } else {
                        v->template emplace<1>(val);
                    }
                    break;
                case 2: *x = X(etl::in_place, val); break;
                case 3:
                    if (sv->size() < 3) {
                        sv->push_back(E(val));
                    }
                    break;
                default: (void)iv->try_emplace_back(val); break;
                }
            });
            if (ok) {
                if (k <= 2) {
                    m[k].assign(1, val);
                } else if (m[k].size() < 3) {
                    m[k].push_back(val);
                }
                ++ctx.stateChanging;
            }
            return;
        }
        if (op == "unset") {
            bool ok = call(k, false, false, [&] {
                switch (k) {
                case 0: o->reset(); break;
                case 1: *v = 5; break;
                case 2: *x = X(etl::unexpect, 3); break;
                case 3:
                    if (!sv->empty()) {
                        if (st.k[0] % 2 == 0) {
                            sv->pop_back();
                        } else {
                            sv->erase(sv->begin());
                        }
                    }
                    break;
                default:
                    if (!iv->empty()) {
                        iv->pop_back();
                    }
                    break;
                }
            });
            if (ok) {
                if (k <= 2) {
                    m[k].clear();
                } else if (!m[k].empty()) {
                    if (k == 3 && st.k[0] % 2 != 0) {
                        m[k].erase(m[k].begin());
                    } else {
                        m[k].pop_back();
                    }
                }
                ++ctx.stateChanging;
                ++ctx.boundaryEvents;
            }
            return;
        }
        if (op == "copy") {
            // a temporary copy of the owner, destroyed again at once
            call(k, false, false, [&] {
                switch (k) {
                case 0: { O t(*o); break; }
                case 1: { V t(*v); break; }
                case 2: { X t(*x); break; }
                case 3: { SV t(*sv); break; }
                default: { IV t(*iv); break; }
                }
            });
            return;
        }
        skip();
    }

    void observe_all()
    {
        uint64_t sh = hstr(plan.scenario.c_str());
        for (int k = 0; k < 5; ++k) {
            std::vector<int> got;
            observe("owner of an operator&-overloading element", [&] {
                switch (k) {
                case 0:
                    if (o->has_value()) {
                        got.push_back((**o).v);
                        // operator-> must name the contained object itself, not what its operator& returns
                        if (static_cast<void const*>(o->operator->()) != static_cast<void const*>(std::addressof(**o))) {
                            got.back() = -31;
                        }
                    }
                    break;
                case 1:
                    if (v->index() == 1) {
                        got.push_back(etl::unchecked_get<1>(*v).v);
                        auto* byIndex = etl::get_if<1>(v);
                        auto* byType  = etl::get_if<E>(v);
                        void const* real = std::addressof(etl::unchecked_get<1>(*v));
                        if (static_cast<void const*>(byIndex) != real || static_cast<void const*>(byType) != real) {
                            got.back() = -32;
                        }
                    }
                    break;
                case 2:
                    if (x->has_value()) {
                        got.push_back((**x).v);
                        if (static_cast<void const*>(x->operator->()) != static_cast<void const*>(std::addressof(**x))) {
                            got.back() = -33;
                        }
                    }
                    break;
                case 3:
                    for (auto const& e : *sv) {
                        got.push_back(e.v);
                    }
                    break;
                default:
                    for (auto const& e : *iv) {
                        got.push_back(e.v);
                    }
                    break;
                }
            });
            if (got != m[k]) {
                ctx.violation("C07", "diff:addressof-hostile-element:value", "an owner of an operator&-overloading element does not hold the expected value(s) (owner " + std::to_string(k) + ")");
                m[k] = got;
            }
            auto* lo         = slot_obj(k);
            size_t const live = reg().live_in(lo, lo + kSlotBytes / 2);
            if (live != m[k].size()) {
                ctx.violation("C03", live > m[k].size() ? "lifetime:leak-inside-owner" : "lifetime:missing-element",
                              std::to_string(live) + " live operator&-overloading elements inside owner " + std::to_string(k) + ", expected " + std::to_string(m[k].size()));
                reg().forget_range(lo, lo + kSlotBytes / 2);
                // rebuild a clean owner so that the rest of the run is meaningful
                guarded(true, [&] {
                    switch (k) {
                    case 0: o = new (slot_obj(0)) O{}; break;
                    case 1: v = new (slot_obj(1)) V{}; break;
                    case 2: x = new (slot_obj(2)) X(etl::unexpect, 1); break;
                    case 3: sv = new (slot_obj(3)) SV{}; break;
                    default: iv = new (slot_obj(4)) IV{}; break;
                    }
                });
                m[k].clear();
            }
            if (!arena_guards_ok(k)) {
                ctx.violation("C02", "memory:guard-damaged", "guard bytes around an owner were overwritten");
                arena_guards_repair(k);
            }
            uint64_t eh = m[k].size();
            for (int e : m[k]) {
                eh = mix64(eh ^ static_cast<uint64_t>(e));
            }
            ctx.log.feed(eh);
            sh = mix64(sh ^ eh ^ (static_cast<uint64_t>(k) << 56));
        }
        Base::temporaries_must_be_gone();
        if (g_counting) {
            states().insert(sh);
            transitions().insert(mix64(sh ^ hstr(ctx.op)));
        }
    }

    void run()
    {
        ctx.step = -1;
        for (int k = 0; k < 5; ++k) {
            create(k, static_cast<uint64_t>(k) + 1);
        }
        for (size_t i = 0; i < plan.steps.size() && !ctx.stop; ++i) {
            ctx.step     = static_cast<int>(i);
            g_crash.step = ctx.step;
            step(plan.steps[i]);
            observe_all();
            ctx.log.nl();
        }
        for (int k = 0; k < 5; ++k) {
            destroy(k);
        }
    }

    static auto ops() -> std::vector<OpDef> const&
    {
        static std::vector<OpDef> const o = {{"set", 10}, {"unset", 7}, {"copy", 3}, {"recreate", 3}};
        return o;
    }
};

// ================================================================================================ optional<bool>
// bool is the value type for which "is constructible from an optional" is true (explicit operator bool): the converting
// constructors must not take over from the copy / move constructors, whatever the value category of the source.
struct OptBoolDriver : DriverBase<OptBoolDriver> {
    using Base = DriverBase<OptBoolDriver>;
    using O    = etl::optional<bool>;
    using M    = std::optional<bool>;

    O* obj[3] = {nullptr, nullptr, nullptr};
    M model[3];

    OptBoolDriver(Plan const& p, Ctx& c)
        : Base(p, c)
    {
    }

    static auto code(M const& m) -> int { return m.has_value() ? (*m ? 1 : 0) : -1; }

    void resync(int s) { model[s] = obj[s]->has_value() ? M(**obj[s]) : M(); }

    auto check_state(int s, char const* prop, char const* prefix) -> bool
    {
        int got = -2;
        observe("optional<bool>", [&] {
            O const& c = *obj[s];
            got        = c.has_value() ? (*c ? 1 : 0) : -1;
            if (c.has_value() != static_cast<bool>(c)) {
                got = -3;
            }
        });
        if (got != code(model[s])) {
            ctx.violation(prop, std::string(prefix) + ":state", "optional<bool> holds " + std::to_string(got) + ", std::optional<bool> holds " + std::to_string(code(model[s])) + " (-1 = empty)");
            return false;
        }
        return true;
    }

    void run()
    {
        for (int s = 0; s < pool; ++s) {
            obj[s] = new (arena_prepare(s, sizeof(O), plan.cfg, static_cast<uint64_t>(s) + 1, alignof(O))) O{};
        }
        for (size_t i = 0; i < plan.steps.size() && !ctx.stop; ++i) {
            Step const& st = plan.steps[i];
            ctx.step       = static_cast<int>(i);
            g_crash.step   = ctx.step;
            int const a    = static_cast<int>(st.a % static_cast<uint32_t>(pool));
            int const b    = static_cast<int>(st.b % static_cast<uint32_t>(pool));
            char const* name = ops()[static_cast<size_t>(st.op)].name;
            std::string const op = name;
            begin_op(name, a);
            ctx.log.kv("b", b);
            bool const val = st.v[0] % 2 != 0;
            O& v = *obj[a];
            if (op == "set") {
                if (call(a, false, false, [&] {
                        if (st.k[0] % 2 == 0) {
                            v = val;
                        } else {
                            v.emplace(val);
                        }
                    })) {
                    model[a] = val;
                    ++ctx.stateChanging;
                }
            } else if (op == "reset") {
                if (call(a, false, false, [&] { v.reset(); })) {
                    model[a].reset();
                    ++ctx.stateChanging;
                    ++ctx.boundaryEvents;
                }
            } else if (op == "assign") {
                if (call(a, false, false, [&] {
                        if (st.k[0] % 2 == 0) {
                            v = *obj[b]; // from a non-const lvalue
                        } else {
                            v = static_cast<O const&>(*obj[b]);
                        }
                    })) {
                    if (a != b) {
                        model[a] = model[b];
                    }
                    ++ctx.stateChanging;
                }
            } else if (op == "rebuild_from" && a != b) {
                // destroy a, then construct it from b in one of the direct-initialisation forms
                int const form = static_cast<int>(st.k[0] % 5);
                ctx.log.kv("form", form);
                guarded(true, [&] { v.~O(); });
                arena_retire(a);
                void* mem = arena_prepare(a, sizeof(O), plan.cfg, static_cast<uint64_t>(ctx.step) + 7, alignof(O));
                O* made   = nullptr;
                bool ok   = call(-1, false, false, [&] {
                    O& src = *obj[b];
                    switch (form) {
                    case 0: made = new (mem) O(src); break;                       // non-const lvalue, parentheses
                    case 1: made = new (mem) O{src}; break;                       // non-const lvalue, braces
                    case 2: made = new (mem) O(static_cast<O const&>(src)); break; // const lvalue
                    case 3: made = new (mem) O(O(src)); break;                    // prvalue
                    default: {
                        O tmp(src);
                        made = new (mem) O(static_cast<O&&>(tmp)); // xvalue
                        break;
                    }
                    }
                });
                if (!ok) {
                    ctx.stop = true;
                    break;
                }
                obj[a]   = made;
                model[a] = model[b];
                ++ctx.stateChanging;
                ++ctx.boundaryEvents;
            } else if (op == "swap") {
                if (call(a, false, false, [&] { v.swap(*obj[b]); })) {
                    if (a != b) {
                        std::swap(model[a], model[b]);
                    }
                    ++ctx.stateChanging;
                }
            } else {
                skip();
            }
            uint64_t sh = hstr(plan.scenario.c_str());
            for (int s = 0; s < pool; ++s) {
                if (!check_state(s, "C07", "diff:optional-bool")) {
                    resync(s);
                }
                if (!arena_guards_ok(s)) {
                    ctx.violation("C02", "memory:guard-damaged", "guard bytes around the optional were overwritten");
                    arena_guards_repair(s);
                }
                ctx.log.i(code(model[s]));
                sh = mix64(sh ^ static_cast<uint64_t>(code(model[s]) + 2) ^ (static_cast<uint64_t>(s) << 56));
            }
            if (g_counting) {
                states().insert(sh);
                transitions().insert(mix64(sh ^ hstr(ctx.op)));
            }
            ctx.log.nl();
        }
        for (int s = 0; s < pool; ++s) {
            guarded(true, [&] { obj[s]->~O(); });
            arena_retire(s);
        }
    }

    static auto ops() -> std::vector<OpDef> const&
    {
        static std::vector<OpDef> const o = {{"set", 8}, {"reset", 4}, {"assign", 5}, {"rebuild_from", 8}, {"swap", 3}};
        return o;
    }
};

} // namespace

void register_ovx_0();
void register_ovx_1();
void register_ovx_2();

#if SIM_PART == 0
void register_ovx_0()
{
    add<OptDriver<int>>("optional<int>", false);
    add<OptDriver<sim::Tracked>>("optional<Tracked>", true);
    add<OptDriver<sim::TrackedMoveOnly>>("optional<TrackedMoveOnly>", true);
    add<OptDriver<sim::TrackedDA>>("optional<TrackedDA>", true);
    add<OptDriver<sim::TrackedOA>>("optional<TrackedOA>", true); // alignas(32) value
    add<OptDriver<sim::Nest>>("optional<Nest>", true);           // a value that owns library objects itself
    add<OptRefDriver<int>>("optional<int&>", false);
    add<OptRefDriver<Cell>>("optional<Cell&>", false);
}

auto main(int argc, char** argv) -> int
{
    register_ovx_0();
    register_ovx_1();
    register_ovx_2();
    return sim::worker_main(argc, argv);
}
#elif SIM_PART == 1
void register_ovx_1()
{
    add<VarDriver<int, char>>("variant<int,char>", false);
    add<VarDriver<int, sim::Tracked>>("variant<int,Tracked>", true);
    add<VarDriver<sim::Tracked, sim::TrackedB, int, etl::monostate>>("variant<Tracked,TrackedB,int,monostate>", true);
    add<VarDriver<int, sim::Tracked, int>>("variant<int,Tracked,int>", true);
    add<VarDriver<int, float>>("variant<int,float>", false);
    add<VarDriver<int, sim::TrackedDA>>("variant<int,TrackedDA>", true);
    add<VarDriver<char, sim::TrackedOA>>("variant<char,TrackedOA>", true); // smallest and over-aligned alternative
    add<VarDriver<int, sim::Nest>>("variant<int,Nest>", true);
}
#elif SIM_PART == 2
void register_ovx_2()
{
    add<ExpDriver<int, int>>("expected<int,int>", false);
    add<ExpDriver<sim::Tracked, sim::TrackedB>>("expected<Tracked,TrackedB>", true);
    add<ExpDriver<sim::Tracked, sim::Tracked>>("expected<Tracked,Tracked>", true);
    add<ExpDriver<sim::TrackedDA, int>>("expected<TrackedDA,int>", true);
    add<ExpDriver<int, sim::TrackedOA>>("expected<int,TrackedOA>", true); // over-aligned error type
    add<ExpDriver<sim::Nest, int>>("expected<Nest,int>", true);
    {
        Scenario sc;
        sc.family   = "ovx";
        sc.name     = "in-place-initialisation<Bag>";
        sc.ops      = InitDriver::ops();
        sc.props    = {"C07"};
        sc.maxSteps = 8;
        sc.run      = [](Plan const& p, Ctx& c) {
            InitDriver d(p, c);
            d.run();
        };
        registry().push_back(std::move(sc));
    }
    {
        Scenario sc;
        sc.family   = "ovx";
        sc.name     = "owners-of-an-element-overloading-operator&";
        sc.ops      = OddElementDriver<TrackedAmp>::ops();
        sc.props    = {"C03", "C07", "C02"};
        sc.maxSteps = 30;
        sc.run      = [](Plan const& p, Ctx& c) {
            OddElementDriver<TrackedAmp> d(p, c);
            d.run();
        };
        registry().push_back(std::move(sc));
    }
    {
        Scenario sc;
        sc.family   = "ovx";
        sc.name     = "owners-of-a-union-element";
        sc.ops      = OddElementDriver<TrackedUnion>::ops();
        sc.props    = {"C03", "C07", "C02"};
        sc.maxSteps = 30;
        sc.run      = [](Plan const& p, Ctx& c) {
            OddElementDriver<TrackedUnion> d(p, c);
            d.run();
        };
        registry().push_back(std::move(sc));
    }
    {
        Scenario sc;
        sc.family   = "ovx";
        sc.name     = "optional<bool>";
        sc.ops      = OptBoolDriver::ops();
        sc.props    = {"C07", "C02"};
        sc.maxSteps = 30;
        sc.run      = [](Plan const& p, Ctx& c) {
            OptBoolDriver d(p, c);
            d.run();
        };
        registry().push_back(std::move(sc));
    }
}
#endif
