// User configuration header picked up by <etl/_config/user.hpp> when
// TETL_ENABLE_USER_CONFIG_HEADER_INCLUDE is defined. This is the seam through which the simulator owns
// etl::assert_handler and etl::exception_handler (both are user-replaceable by design of the library).
#ifndef TETL_SIM_CONFIG_HPP
#define TETL_SIM_CONFIG_HPP

// The suite's configuration switches TETL_ASSERT on explicitly. The `ndebug` flavours leave it to NDEBUG (a release build
// with contract checks enabled): every TETL_PRECONDITION must still fire there.
#if !defined(SIM_NO_ASSERTIONS)
    #define TETL_ENABLE_ASSERTIONS
#endif
#define TETL_ENABLE_CUSTOM_ASSERT_HANDLER
#define TETL_ENABLE_CUSTOM_EXCEPTION_HANDLER

namespace sim {
// Records the event, then longjmps back into the simulator (never returns).
[[noreturn]] void handler_entry(int line, char const* file, char const* func, char const* expr, bool isException);
} // namespace sim

namespace etl {

template <typename Exception>
[[noreturn]] inline auto exception_handler(Exception const& e) -> void
{
    sim::handler_entry(0, nullptr, nullptr, e.what(), true);
}

template <typename Assertion>
[[noreturn]] auto assert_handler(Assertion const& msg) -> void
{
    sim::handler_entry(msg.line, msg.file, msg.func, msg.expression, false);
}

} // namespace etl

#endif
