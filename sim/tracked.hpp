// Instrumented element types (F5: foreign code inside library calls) with an address-keyed lifetime
// registry. Every special member first consults the registry by *address*, before touching own fields.
#pragma once

#include "core.hpp"

#include <initializer_list>

namespace sim {

// registry bookkeeping allocates (std::map nodes, strings): it is harness code running inside library calls,
// so the allocator tripwire is paused while it runs
struct LibPause {
    int saved;

    LibPause()
        : saved(g_libDepth)
    {
        g_libDepth = 0;
    }

    LibPause(LibPause const&)                    = delete;
    auto operator=(LibPause const&) -> LibPause& = delete;

    ~LibPause() { g_libDepth = saved; }
};

struct Registry {
    // address -> serial id of the object living there
    std::map<uintptr_t, int> live;
    int nextId          = 1;
    uint64_t constructs = 0;
    uint64_t destroys   = 0;
    uint64_t copies     = 0;
    uint64_t moves      = 0;
    uint64_t assigns    = 0;
    uint64_t compares   = 0; // operator== calls on instrumented elements

    void reset()
    {
        live.clear();
        harnessHeld.clear();
        nextId     = 1;
        constructs = destroys = copies = moves = assigns = compares = 0;
        reset_shadow();
    }

    static void reset_shadow(); // defined after Sealed

    static auto where(void const* p) -> std::string
    {
        auto rel = arena_rel(p);
        if (rel < 0) {
            return "stack/heap";
        }
        return "arena+" + std::to_string(rel);
    }

    void bad(char const* clause, void const* p)
    {
        LibPause pause;
        if (g_ctx != nullptr) {
            if (g_ctx->stepClass == 2) {
                // inside a precondition-violating call: the damage belongs to the contract property, not to C03
                g_ctx->violation("C05", std::string("contract:damage-before-handler:") + clause, std::string(clause) + " at " + where(p));
            } else {
                g_ctx->violation("C03", std::string("lifetime:") + clause, std::string(clause) + " at " + where(p));
                // constructing over a live object, destroying or using one outside its lifetime during a valid call is
                // undefined behaviour as well
                g_ctx->violation("C02", std::string("memory:lifetime-violation:") + clause, std::string(clause) + " at " + where(p));
            }
        }
    }

    void on_construct(void const* p)
    {
        LibPause pause;
        auto a = reinterpret_cast<uintptr_t>(p);
        if (live.count(a) != 0) {
            bad("construct-over-live", p);
        }
        live[a] = nextId++;
        ++constructs;
    }

    void on_destroy(void const* p)
    {
        LibPause pause;
        auto a  = reinterpret_cast<uintptr_t>(p);
        auto it = live.find(a);
        if (it == live.end()) {
            bad("destroy-dead", p);
            return;
        }
        live.erase(it);
        ++destroys;
    }

    void need_live(void const* p, char const* clause)
    {
        if (live.count(reinterpret_cast<uintptr_t>(p)) == 0) {
            bad(clause, p);
        }
    }

    [[nodiscard]] auto is_live(void const* p) const -> bool { return live.count(reinterpret_cast<uintptr_t>(p)) != 0; }

    // number of live objects whose address lies in [lo, hi)
    [[nodiscard]] auto live_in(void const* lo, void const* hi) const -> size_t
    {
        auto b = live.lower_bound(reinterpret_cast<uintptr_t>(lo));
        auto e = live.lower_bound(reinterpret_cast<uintptr_t>(hi));
        size_t n = 0;
        for (; b != e; ++b) {
            ++n;
        }
        return n;
    }

    [[nodiscard]] auto live_outside_arena() const -> size_t
    {
        size_t n = 0;
        for (auto const& kv : live) {
            if (!in_arena(reinterpret_cast<void const*>(kv.first))) {
                ++n;
            }
        }
        return n;
    }

    // Live instrumented objects that lie inside the arena but outside the object currently placed in their slot: an owner
    // constructed (wrote) an element outside its own storage. They are forgotten once counted.
    auto strays_in_arena() -> size_t
    {
        size_t n = 0;
        for (auto it = live.begin(); it != live.end();) {
            auto const* p  = reinterpret_cast<unsigned char const*>(it->first);
            long const rel = arena_rel(p);
            bool stray     = false;
            if (rel >= 0) {
                int const slot = static_cast<int>(static_cast<size_t>(rel) / kSlotBytes);
                auto const* lo = slot_obj(slot);
                stray          = g_slotObj[slot] == 0 || p < lo || p >= lo + g_slotObj[slot];
            }
            if (stray) {
                ++n;
                it = live.erase(it);
            } else {
                ++it;
            }
        }
        return n;
    }

    // objects the harness itself holds outside the arena (call arguments) at the moment a library call starts
    std::vector<uintptr_t> harnessHeld;

    void mark_harness_held()
    {
        harnessHeld.clear();
        for (auto const& kv : live) {
            if (!in_arena(reinterpret_cast<void const*>(kv.first))) {
                harnessHeld.push_back(kv.first);
            }
        }
    }

    [[nodiscard]] auto is_harness_held(uintptr_t a) const -> bool
    {
        for (auto h : harnessHeld) {
            if (h == a) {
                return true;
            }
        }
        return false;
    }

    // temporaries abandoned by a longjmp out of a trapped call are casualties of the simulator, not leaks
    // (objects the harness held before the call are still owned by the harness and stay registered)
    auto forgive_outside_arena() -> size_t
    {
        size_t n = 0;
        for (auto it = live.begin(); it != live.end();) {
            if (!in_arena(reinterpret_cast<void const*>(it->first)) && !is_harness_held(it->first)) {
                it = live.erase(it);
                ++n;
            } else {
                ++it;
            }
        }
        return n;
    }

    // forget everything registered inside one slot (used after a trap abandoned an object under construction)
    void forget_range(void const* lo, void const* hi)
    {
        auto b = live.lower_bound(reinterpret_cast<uintptr_t>(lo));
        auto e = live.lower_bound(reinterpret_cast<uintptr_t>(hi));
        live.erase(b, e);
    }
};

inline auto reg() -> Registry&
{
    static Registry r;
    return r;
}

// constructions and assignments of instrumented objects so far: user code the library has called
inline bool const g_userCallsInstalled = (g_user_calls = [] { return reg().constructs + reg().assigns; }, true);

inline constexpr int kMovedFrom = -7777;

enum class Kind { copy_move, move_only, copy_only };

// Tag >= 100 selects an over-aligned (32-byte) variant: storage that only honours alignof(int) or alignof(max_align_t)
// puts such an element at a misaligned address, which every special member checks for
template <Kind K, int Tag = 0>
struct alignas(Tag >= 100 ? 32 : alignof(int)) TrackedT {
    int v;

    void aligned_or_report() const
    {
        if constexpr (Tag >= 100) {
            if (reinterpret_cast<uintptr_t>(this) % 32 != 0 && g_ctx != nullptr && g_ctx->stepClass != 2) {
                LibPause pause;
                g_ctx->violation("C02", "memory:misaligned-object", "an over-aligned element lives at " + Registry::where(this) + ", which is not a multiple of its alignment");
            }
        }
    }

    TrackedT()
    {
        aligned_or_report();
        reg().on_construct(this);
        v = 0;
    }

    TrackedT(int x) // NOLINT implicit on purpose: containers are fed plain ints
    {
        aligned_or_report();
        reg().on_construct(this);
        v = x;
    }

    TrackedT(TrackedT const& o)
        requires(K != Kind::move_only)
    {
        aligned_or_report();
        reg().need_live(&o, "copy-from-dead");
        reg().on_construct(this);
        ++reg().copies;
        v = o.v;
    }

    TrackedT(TrackedT&& o) noexcept
        requires(K != Kind::copy_only)
    {
        aligned_or_report();
        reg().need_live(&o, "move-from-dead");
        reg().on_construct(this);
        ++reg().moves;
        v   = o.v;
        o.v = kMovedFrom;
    }

    auto operator=(TrackedT const& o) -> TrackedT&
        requires(K != Kind::move_only)
    {
        reg().need_live(&o, "assign-from-dead");
        reg().need_live(this, "assign-to-dead");
        ++reg().assigns;
        v = o.v;
        return *this;
    }

    auto operator=(TrackedT&& o) noexcept -> TrackedT&
        requires(K != Kind::copy_only)
    {
        reg().need_live(&o, "assign-from-dead");
        reg().need_live(this, "assign-to-dead");
        ++reg().assigns;
        if (this != &o) {
            v   = o.v;
            o.v = kMovedFrom;
        }
        return *this;
    }

    ~TrackedT()
    {
        reg().on_destroy(this);
        // the object's last value must not survive its destruction (a volatile store: a plain one is a dead store the
        // optimiser removes, and a copy made from the dead object would then still look right)
        *const_cast<int volatile*>(&v) = -9999;
    }

    friend auto operator==(TrackedT const& a, TrackedT const& b) -> bool
    {
        ++reg().compares;
        return a.v == b.v;
    }

    friend auto operator!=(TrackedT const& a, TrackedT const& b) -> bool { return a.v != b.v; }

    friend auto operator<(TrackedT const& a, TrackedT const& b) -> bool { return a.v < b.v; }

    friend auto operator>(TrackedT const& a, TrackedT const& b) -> bool { return a.v > b.v; }

    friend auto operator<=(TrackedT const& a, TrackedT const& b) -> bool { return a.v <= b.v; }

    friend auto operator>=(TrackedT const& a, TrackedT const& b) -> bool { return a.v >= b.v; }
};

// Instrumented type whose copy/move ASSIGNMENT is defaulted (trivial) while construction and destruction are
// user-provided and tracked: the RAII-handle shape that trait-based "is this trivially assignable" shortcuts get wrong.
struct TrackedDA {
    int v;

    TrackedDA()
    {
        reg().on_construct(this);
        v = 0;
    }

    TrackedDA(int x) // NOLINT
    {
        reg().on_construct(this);
        v = x;
    }

    TrackedDA(TrackedDA const& o)
    {
        reg().need_live(&o, "copy-from-dead");
        reg().on_construct(this);
        ++reg().copies;
        v = o.v;
    }

    TrackedDA(TrackedDA&& o) noexcept
    {
        reg().need_live(&o, "move-from-dead");
        reg().on_construct(this);
        ++reg().moves;
        v   = o.v;
        o.v = kMovedFrom;
    }

    auto operator=(TrackedDA const&) -> TrackedDA& = default;
    auto operator=(TrackedDA&&) noexcept -> TrackedDA& = default;

    ~TrackedDA()
    {
        reg().on_destroy(this);
        // the object's last value must not survive its destruction (a volatile store: a plain one is a dead store the
        // optimiser removes, and a copy made from the dead object would then still look right)
        *const_cast<int volatile*>(&v) = -9999;
    }

    friend auto operator==(TrackedDA const& a, TrackedDA const& b) -> bool { return a.v == b.v; }

    friend auto operator!=(TrackedDA const& a, TrackedDA const& b) -> bool { return a.v != b.v; }

    friend auto operator<(TrackedDA const& a, TrackedDA const& b) -> bool { return a.v < b.v; }

    friend auto operator>(TrackedDA const& a, TrackedDA const& b) -> bool { return a.v > b.v; }

    friend auto operator<=(TrackedDA const& a, TrackedDA const& b) -> bool { return a.v <= b.v; }

    friend auto operator>=(TrackedDA const& a, TrackedDA const& b) -> bool { return a.v >= b.v; }
};

using Tracked         = TrackedT<Kind::copy_move>;
using TrackedB        = TrackedT<Kind::copy_move, 1>;
using TrackedMoveOnly = TrackedT<Kind::move_only>;
using TrackedCopyOnly = TrackedT<Kind::copy_only>;
using TrackedOA       = TrackedT<Kind::copy_move, 100>; // alignas(32)

// Element type whose operator< is coarser than its operator==: 2k and 2k+1 are equivalent under < but not equal (the
// shape of a case-insensitive key or of a record ordered by one field). Lexicographic comparisons must decide ties with
// operator< alone, equality with operator== alone.
struct Coarse {
    int v = 0;

    Coarse() = default;

    Coarse(int x) // NOLINT
        : v(x)
    {
    }

    explicit operator long long() const { return v; }

    friend auto operator==(Coarse const& a, Coarse const& b) -> bool { return a.v == b.v; }

    friend auto operator!=(Coarse const& a, Coarse const& b) -> bool { return a.v != b.v; }

    friend auto operator<(Coarse const& a, Coarse const& b) -> bool { return a.v / 2 < b.v / 2; }

    friend auto operator>(Coarse const& a, Coarse const& b) -> bool { return b < a; }

    friend auto operator<=(Coarse const& a, Coarse const& b) -> bool { return !(b < a); }

    friend auto operator>=(Coarse const& a, Coarse const& b) -> bool { return !(a < b); }
};

// A type for which T(a, b) and T{a, b} mean different things (like std::vector): emplace-style functions must construct
// it from their arguments with parentheses, as the std containers do.
struct BagKey {
    int n    = 0;
    int e[4] = {0, 0, 0, 0};

    BagKey() = default;

    explicit BagKey(int count) // count zeros
        : n(count < 4 ? count : 4)
    {
    }

    BagKey(int count, int value) // count copies of value
        : n(count < 4 ? count : 4)
    {
        for (int i = 0; i < n; ++i) {
            e[i] = value;
        }
    }

    BagKey(std::initializer_list<int> il) // the listed values
    {
        for (int x : il) {
            if (n < 4) {
                e[n++] = x;
            }
        }
    }

    [[nodiscard]] auto code() const -> long long
    {
        long long c = n;
        for (int i = 0; i < 4; ++i) {
            c = c * 16 + e[i];
        }
        return c;
    }

    friend auto operator<(BagKey const& a, BagKey const& b) -> bool { return a.code() < b.code(); }

    friend auto operator==(BagKey const& a, BagKey const& b) -> bool { return a.code() == b.code(); }
};

// Element type that is NOT trivially copyable (user-provided copy / move operations) although its default constructor
// and its destructor are trivial - the shape a careless "is this relocatable?" test gets wrong. Every special member
// records the value it leaves at its own address in a shadow table; an element whose bytes differ from its shadow was
// moved by memcpy / memmove behind the back of its special members, which is undefined behaviour for such a type.
struct Sealed {
    int v;

    static auto shadow() -> std::map<uintptr_t, int>&
    {
        static std::map<uintptr_t, int> m;
        return m;
    }

    void note() const
    {
        LibPause pause;
        shadow()[reinterpret_cast<uintptr_t>(this)] = v;
    }

    Sealed() = default; // trivial: leaves v indeterminate (value-initialisation zeroes it)

    Sealed(int x) // NOLINT
        : v(x)
    {
        note();
    }

    Sealed(Sealed const& o)
        : v(o.v)
    {
        note();
    }

    Sealed(Sealed&& o) noexcept
        : v(o.v)
    {
        note();
    }

    auto operator=(Sealed const& o) -> Sealed&
    {
        v = o.v;
        note();
        return *this;
    }

    auto operator=(Sealed&& o) noexcept -> Sealed&
    {
        v = o.v;
        note();
        return *this;
    }

    ~Sealed() = default;

    // true if the bytes at this address are what the element's own special members left there (0 is what
    // value-initialisation through the trivial default constructor leaves, which no hook can see)
    [[nodiscard]] auto untouched() const -> bool
    {
        if (v == 0) {
            return true;
        }
        auto it = shadow().find(reinterpret_cast<uintptr_t>(this));
        return it != shadow().end() && it->second == v;
    }

    explicit operator long long() const { return v; }

    friend auto operator==(Sealed const& a, Sealed const& b) -> bool { return a.v == b.v; }

    friend auto operator!=(Sealed const& a, Sealed const& b) -> bool { return a.v != b.v; }

    friend auto operator<(Sealed const& a, Sealed const& b) -> bool { return a.v < b.v; }

    friend auto operator>(Sealed const& a, Sealed const& b) -> bool { return a.v > b.v; }

    friend auto operator<=(Sealed const& a, Sealed const& b) -> bool { return a.v <= b.v; }

    friend auto operator>=(Sealed const& a, Sealed const& b) -> bool { return a.v >= b.v; }
};

inline void Registry::reset_shadow()
{
    LibPause pause;
    Sealed::shadow().clear();
}

static_assert(std::is_trivially_default_constructible_v<Sealed> && std::is_trivially_destructible_v<Sealed> && !std::is_trivially_copyable_v<Sealed>);

template <typename T>
inline constexpr bool is_tracked_v = false;
template <Kind K, int Tag>
inline constexpr bool is_tracked_v<TrackedT<K, Tag>> = true;
template <>
inline constexpr bool is_tracked_v<TrackedDA> = true;

// floating-point elements are int-coded in models and logs: 6 stands for -0.0, 7 for NaN, everything else for itself
inline auto decode_float(long long code) -> double
{
    if (code == 7) {
        return __builtin_nan("");
    }
    if (code == 6) {
        return -0.0;
    }
    return static_cast<double>(code);
}

template <typename T>
auto value_of(T const& x) -> long long
{
    if constexpr (is_tracked_v<T>) {
        return x.v;
    } else if constexpr (std::is_floating_point_v<T>) {
        if (x != x) {
            return 7;
        }
        if (x == 0 && __builtin_signbit(x)) {
            return 6;
        }
        return static_cast<long long>(x);
    } else {
        return static_cast<long long>(x);
    }
}

} // namespace sim
