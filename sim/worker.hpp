// Worker main: run seeds in-process, replay a plan file, shrink a plan (ddmin, fork per candidate),
// crash attribution, allocator tripwire. Included once per family binary, after the scenarios are registered.
#pragma once

#include "core.hpp"
#include "tracked.hpp"

#include <algorithm>
#include <csignal>
#include <fcntl.h>
#include <ctime>
#include <new>
#include <sys/mman.h>
#include <sys/time.h>
#include <sys/wait.h>
#include <unistd.h>

#if SIM_ASAN
extern "C" void __sanitizer_set_death_callback(void (*callback)(void));
#endif

#if SIM_ASAN && defined(SIM_MAIN_TU)
// non-inline and used: an `extern "C" inline` definition would never be emitted
extern "C" __attribute__((used)) auto __asan_default_options() -> char const*
{
    return "exitcode=77:detect_leaks=0:alloc_dealloc_mismatch=0:abort_on_error=0:detect_stack_use_after_return=0:allocator_may_return_null=1:"
           "handle_abort=1:print_summary=1";
}
extern "C" __attribute__((used)) auto __ubsan_default_options() -> char const*
{
    return "print_stacktrace=0:halt_on_error=1:exitcode=77";
}
#endif

namespace sim {

inline uint64_t g_allocTrips = 0;
void alloc_trip(char const* what);

#if defined(SIM_MAIN_TU)
// ------------------------------------------------------------------------------------------------ handler
[[noreturn]] void handler_entry(int line, char const* file, char const* func, char const* expr, bool isException)
{
    if (!g_trap.armed) {
        // a contract fired outside any guarded region: the driver called the library unguarded
        char buf[512];
        int n = std::snprintf(
            buf,
            sizeof(buf),
            "HARNESS-ERROR handler outside guard %s:%d %s\n",
            file != nullptr ? file : "?",
            line,
            expr != nullptr ? expr : "?"
        );
        (void)!write(2, buf, static_cast<size_t>(n));
        std::_Exit(3);
    }
    ++g_trap.entered;
    g_trap.line        = line;
    g_trap.file        = file;
    g_trap.func        = func;
    g_trap.expr        = expr;
    g_trap.isException = isException;
    g_trap.userCalls   = g_user_calls != nullptr ? g_user_calls() : 0;
    std::longjmp(g_trap.env, 1);
}

// ------------------------------------------------------------------------------------------------ allocator tripwire (F4)
void alloc_trip(char const* what)
{
    ++g_allocTrips;
    if (g_ctx != nullptr) {
        g_ctx->violation("C02", "memory:allocator-called", std::string("dynamic allocation inside a library call: ") + what);
    }
    if (g_trap.armed) {
        g_trap.allocTrip = true;
        g_trap.allocWhat = what;
        std::longjmp(g_trap.env, 2);
    }
}

#endif // SIM_MAIN_TU (reopened below)
} // namespace sim

#if defined(SIM_MAIN_TU)
extern "C" {
auto __real_malloc(size_t) -> void*;
auto __real_calloc(size_t, size_t) -> void*;
auto __real_realloc(void*, size_t) -> void*;

auto __wrap_malloc(size_t n) -> void*
{
    if (sim::g_libDepth > 0) {
        sim::alloc_trip("malloc");
        return nullptr;
    }
    return __real_malloc(n);
}

auto __wrap_calloc(size_t a, size_t b) -> void*
{
    if (sim::g_libDepth > 0) {
        sim::alloc_trip("calloc");
        return nullptr;
    }
    return __real_calloc(a, b);
}

auto __wrap_realloc(void* p, size_t n) -> void*
{
    if (sim::g_libDepth > 0) {
        sim::alloc_trip("realloc");
        return nullptr;
    }
    return __real_realloc(p, n);
}
}

auto operator new(size_t n) -> void*
{
    if (sim::g_libDepth > 0) {
        sim::alloc_trip("operator new");
    }
    void* p = __real_malloc(n == 0 ? 1 : n);
    if (p == nullptr) {
        std::fprintf(stderr, "HARNESS-ERROR out of memory\n");
        std::_Exit(3);
    }
    return p;
}

auto operator new[](size_t n) -> void* { return operator new(n); }

auto operator new(size_t n, std::nothrow_t const& /*tag*/) noexcept -> void* { return operator new(n); }

auto operator new[](size_t n, std::nothrow_t const& /*tag*/) noexcept -> void* { return operator new(n); }

void operator delete(void* p, std::nothrow_t const& /*tag*/) noexcept { std::free(p); }

void operator delete[](void* p, std::nothrow_t const& /*tag*/) noexcept { std::free(p); }

void operator delete(void* p) noexcept { std::free(p); }

void operator delete[](void* p) noexcept { std::free(p); }

void operator delete(void* p, size_t /*n*/) noexcept { std::free(p); }

void operator delete[](void* p, size_t /*n*/) noexcept { std::free(p); }
#endif // SIM_MAIN_TU

namespace sim {

// ------------------------------------------------------------------------------------------------ crash attribution
inline void crash_line(char const* reason)
{
    char buf[512];
    int n = std::snprintf(
        buf,
        sizeof(buf),
        "\nCRASH idx=%ld runs=%ld steps=%ld seed=%llu scenario=%s step=%d op=%s stepclass=%d reason=%s\n",
        g_crash.idx,
        g_crash.runs,
        g_crash.steps,
        static_cast<unsigned long long>(g_crash.seed),
        g_crash.scenario,
        g_crash.step,
        g_crash.op,
        g_crash.stepClass,
        reason
    );
    (void)!write(1, buf, static_cast<size_t>(n));
}

// The hang watchdog counts the CPU time the process itself has consumed (ITIMER_PROF), not wall-clock time: a loop that
// never ends burns CPU and is caught, a machine that is busy with something else is not mistaken for one.  (A wall-clock
// alarm expired in six workers at once while three compilations were running next to a thorough run; none of the six
// reproduced, the check exited 2.)
inline void watchdog(int cpuSeconds)
{
    struct itimerval it{};
    it.it_value.tv_sec = cpuSeconds;
    setitimer(ITIMER_PROF, &it, nullptr);
}

inline void on_signal(int sig)
{
    char const* r = "signal";
    switch (sig) {
    case SIGSEGV: r = "SIGSEGV"; break;
    case SIGBUS: r = "SIGBUS"; break;
    case SIGILL: r = "SIGILL"; break;
    case SIGABRT: r = "SIGABRT"; break;
    case SIGFPE: r = "SIGFPE"; break;
    case SIGPROF: r = "timeout"; break;
    default: break;
    }
    crash_line(r);
    _exit(77);
}

inline void on_sanitizer_death() { crash_line("sanitizer"); }

// progress page: anonymous shared mapping (visible to a parent after fork) or a file the supervisor reads
inline void setup_progress_page(char const* path)
{
    void* p = MAP_FAILED;
    if (path != nullptr) {
        int fd = open(path, O_RDWR | O_CREAT | O_TRUNC, 0644);
        if (fd >= 0 && ftruncate(fd, sizeof(CrashInfo)) == 0) {
            p = mmap(nullptr, sizeof(CrashInfo), PROT_READ | PROT_WRITE, MAP_SHARED, fd, 0);
        }
        if (fd >= 0) {
            close(fd);
        }
    } else {
        p = mmap(nullptr, sizeof(CrashInfo), PROT_READ | PROT_WRITE, MAP_SHARED | MAP_ANONYMOUS, -1, 0);
    }
    if (p != MAP_FAILED) {
        std::memset(p, 0, sizeof(CrashInfo));
        g_crashp      = static_cast<CrashInfo*>(p);
        g_crash.idx   = -1;
        g_crash.step  = -1;
    }
}

inline void install_crash_handlers()
{
    static char altstack[1 << 16];
    stack_t ss{};
    ss.ss_sp   = altstack;
    ss.ss_size = sizeof(altstack);
    sigaltstack(&ss, nullptr);
    struct sigaction sa{};
    sa.sa_handler = on_signal;
    sa.sa_flags   = SA_ONSTACK;
    sigemptyset(&sa.sa_mask);
#if SIM_ASAN
    __sanitizer_set_death_callback(on_sanitizer_death);
    sigaction(SIGPROF, &sa, nullptr);
#else
    for (int s : {SIGSEGV, SIGBUS, SIGILL, SIGABRT, SIGFPE, SIGPROF}) {
        sigaction(s, &sa, nullptr);
    }
#endif
}

// ------------------------------------------------------------------------------------------------ one execution
struct ExecResult {
    uint64_t hash = 0;
    std::vector<Violation> viols;
    std::vector<std::string> kf;
    std::string text;
    bool nontrivial = false;
    int steps       = 0;
    int faults      = 0;
};

inline auto exec_plan(Plan const& plan, Scenario const& sc, bool text) -> ExecResult
{
    Ctx ctx;
    ctx.log.text = text;
    ctx.running  = plan.property;
    g_ctx        = &ctx;
    reg().reset();
    arena_reset_all();
    g_libDepth        = 0;
    g_trap.armed      = false;
    g_crash.seed      = plan.seed;
    crash_set_scenario(sc.name.c_str());
    g_crash.step = -1;
    crash_set_op("-");
    g_crash.stepClass = 0;
    ctx.log.s(sc.name.c_str());
    ctx.log.nl();
    sc.run(plan, ctx);
    // teardown: nothing may be alive once every owner is destroyed
    ctx.step = static_cast<int>(plan.steps.size());
    ctx.op   = "teardown";
    if (!reg().live.empty() && !ctx.stop) {
        ctx.violation(
            "C03",
            "lifetime:alive-after-owner-destroyed",
            std::to_string(reg().live.size()) + " element(s) still alive after all owners were destroyed"
        );
    }
    arena_reset_all();
    g_ctx = nullptr;
    ExecResult r;
    r.hash       = ctx.log.h;
    r.viols      = std::move(ctx.viols);
    r.kf         = std::move(ctx.kfSeen);
    r.text       = std::move(ctx.log.out);
    r.nontrivial = ctx.stateChanging >= 3 && ctx.boundaryEvents >= 1;
    r.steps      = static_cast<int>(plan.steps.size());
    r.faults     = ctx.faultsFired;
    return r;
}

// Full evaluation for a property: the plan itself, plus (C02) the same plan under a different garbage pattern.
inline auto eval_plan(Plan const& plan, Scenario const& sc, std::string const& prop, bool text) -> ExecResult
{
    auto r = exec_plan(plan, sc, text);
    if (prop == "C02" && sc.serves("C02")) {
        bool const saved = g_counting;
        g_counting       = false;
        Plan alt         = plan;
        alt.cfg.garbage  = (plan.cfg.garbage + 1 + static_cast<int>(plan.cfg.gseed % 3)) % 4;
        alt.cfg.gseed    = mix64(plan.cfg.gseed) | 1U;
        auto r2          = exec_plan(alt, sc, false);
        g_counting       = saved;
        if (r2.hash != r.hash) {
            bool have = false;
            for (auto const& v : r.viols) {
                have = have || v.prop == "C02";
            }
            if (!have) {
                Violation v;
                v.prop   = "C02";
                v.clause = "memory:garbage-dependent";
                v.op     = "run";
                v.step   = -1;
                v.detail = "event log differs when only the pre-existing memory contents differ (garbage "
                         + std::to_string(plan.cfg.garbage) + " vs " + std::to_string(alt.cfg.garbage) + ")";
                r.viols.push_back(v);
            }
        }
    }
    return r;
}

inline auto json_escape(std::string const& s) -> std::string
{
    std::string o;
    for (char c : s) {
        switch (c) {
        case '"': o += "\\\""; break;
        case '\\': o += "\\\\"; break;
        case '\n': o += "\\n"; break;
        case '\t': o += "\\t"; break;
        default:
            if (static_cast<unsigned char>(c) < 0x20) {
                char b[8];
                std::snprintf(b, sizeof(b), "\\u%04x", c);
                o += b;
            } else {
                o += c;
            }
        }
    }
    return o;
}

inline auto read_file(std::string const& path, std::string& out) -> bool
{
    FILE* f = std::fopen(path.c_str(), "rb");
    if (f == nullptr) {
        return false;
    }
    char buf[4096];
    size_t n = 0;
    while ((n = std::fread(buf, 1, sizeof(buf), f)) > 0) {
        out.append(buf, n);
    }
    std::fclose(f);
    return true;
}

inline auto write_file(std::string const& path, std::string const& data) -> bool
{
    FILE* f = std::fopen(path.c_str(), "wb");
    if (f == nullptr) {
        return false;
    }
    std::fwrite(data.data(), 1, data.size(), f);
    std::fclose(f);
    return true;
}

inline void write_hashes(std::string const& path, std::unordered_set<uint64_t> const& set)
{
    std::vector<uint64_t> v(set.begin(), set.end());
    std::sort(v.begin(), v.end());
    FILE* f = std::fopen(path.c_str(), "wb");
    if (f != nullptr) {
        if (!v.empty()) {
            std::fwrite(v.data(), sizeof(uint64_t), v.size(), f);
        }
        std::fclose(f);
    }
}

inline auto split(std::string const& s, char sep) -> std::vector<std::string>
{
    std::vector<std::string> out;
    size_t pos = 0;
    while (pos <= s.size()) {
        auto e = s.find(sep, pos);
        if (e == std::string::npos) {
            e = s.size();
        }
        if (e > pos) {
            out.push_back(s.substr(pos, e - pos));
        }
        pos = e + 1;
    }
    return out;
}

inline auto profile_for(std::string const& prop) -> Profile
{
    Profile p;
    if (prop == "C02") {
        p.misuse       = false;
        p.faultFreePct = 40;
        p.maxFaultPct  = 15;
    } else if (prop == "C05") {
        p.faultFreePct = 10;
        p.maxFaultPct  = 35;
    } else if (prop == "C03") {
        p.faultFreePct = 25;
        p.maxFaultPct  = 20;
    }
    return p;
}

// ------------------------------------------------------------------------------------------------ run mode
inline auto cmd_run(std::map<std::string, std::string> const& opt) -> int
{
    auto get = [&](char const* k, char const* d) { auto it = opt.find(k); return it == opt.end() ? std::string(d) : it->second; };
    std::string const prop = get("prop", "");
    uint64_t const base    = std::strtoull(get("base", "1").c_str(), nullptr, 10);
    long const begin       = std::strtol(get("begin", "0").c_str(), nullptr, 10);
    long const end         = std::strtol(get("end", "1000").c_str(), nullptr, 10);
    long const nworkers    = std::strtol(get("workers", "1").c_str(), nullptr, 10);
    long const worker      = std::strtol(get("worker", "0").c_str(), nullptr, 10);
    long const chunk       = std::strtol(get("chunk", "256").c_str(), nullptr, 10);
    double const maxSec    = std::strtod(get("max-seconds", "1e9").c_str(), nullptr);
    std::string const out  = get("out", "");
    std::string const only = get("scenario", "");
    int const maxViol      = static_cast<int>(std::strtol(get("max-viol", "40").c_str(), nullptr, 10));
    std::string const dump = get("dump-hashes", "");
    FILE* dumpFile         = dump.empty() ? nullptr : std::fopen(dump.c_str(), "w");
    bool const neutralOnly = get("neutral-only", "0") == "1";

    std::vector<Scenario const*> elig;
    for (auto const& s : registry()) {
        if (s.serves(prop) && (only.empty() || only == s.name)) {
            elig.push_back(&s);
        }
    }
    if (elig.empty()) {
        std::printf("HARNESS-ERROR no scenario serves %s\n", prop.c_str());
        return 3;
    }
    Profile const prof = profile_for(prop);

    std::unordered_set<uint64_t> traces;
    std::map<std::string, long> foreign;
    std::map<std::string, long> kfCount;
    std::map<std::string, long> perScenario;
    std::vector<std::string> samples;
    long runs = 0, steps = 0, viols = 0, nontrivial = 0, faults = 0;
    timespec t0{};
    clock_gettime(CLOCK_MONOTONIC, &t0); // wall-clock cap of the batch only; never feeds a run
    auto elapsed = [&] {
        timespec t{};
        clock_gettime(CLOCK_MONOTONIC, &t);
        return static_cast<double>(t.tv_sec - t0.tv_sec) + 1e-9 * static_cast<double>(t.tv_nsec - t0.tv_nsec);
    };
    bool capped  = false;
    long lastIdx = begin - 1;
    for (long i = begin; i < end; ++i) {
        if ((i / chunk) % nworkers != worker) {
            continue;
        }
        if ((runs & 255) == 0) {
            watchdog(20);
            if (elapsed() > maxSec) {
                capped = true;
                break;
            }
        }
        uint64_t const seed = mix64(base ^ mix64(static_cast<uint64_t>(i)));
        Scenario const& sc  = *elig[seed % elig.size()];
        g_crash.idx         = i;
        Plan plan           = generate(sc, seed, prof);
        plan.property       = prop;
        auto r              = eval_plan(plan, sc, prop, false);
        ++runs;
        g_crash.runs  = runs;
        g_crash.steps = steps;
        lastIdx       = i;
        if (dumpFile != nullptr) {
            std::fprintf(dumpFile, "%ld %016llx %llu %s ;\n", i, neutralOnly && !sc.compilerNeutral ? 0ULL : static_cast<unsigned long long>(r.hash),
                         static_cast<unsigned long long>(seed), sc.name.c_str());
        }
        steps += r.steps;
        faults += r.faults;
        ++perScenario[sc.name];
        for (auto const& k : r.kf) {
            ++kfCount[k];
        }
        if (r.nontrivial) {
            ++nontrivial;
            traces.insert(r.hash);
            if (worker == 0 && samples.size() < 3) {
                bool const saved = g_counting;
                g_counting       = false;
                auto rt          = exec_plan(plan, sc, true);
                g_counting       = saved;
                samples.push_back("seed=" + std::to_string(seed) + " " + rt.text);
            }
        }
        for (auto const& v : r.viols) {
            if (v.prop == prop) {
                ++viols;
                if (viols <= maxViol) {
                    std::printf(
                        "V idx=%ld seed=%llu scenario=%s class=%s step=%d detail=%s\n",
                        i,
                        static_cast<unsigned long long>(seed),
                        sc.name.c_str(),
                        v.cls().c_str(),
                        v.step,
                        v.detail.c_str()
                    );
                    std::fflush(stdout);
                }
            } else {
                ++foreign[v.prop + ":" + v.clause];
            }
        }
    }
    watchdog(0);
    if (dumpFile != nullptr) {
        std::fclose(dumpFile);
    }
    if (!out.empty()) {
        write_hashes(out + ".traces", traces);
        write_hashes(out + ".states", states());
        write_hashes(out + ".trans", transitions());
    }
    std::string js = "{";
    js += "\"runs\":" + std::to_string(runs) + ",\"steps\":" + std::to_string(steps) + ",\"violations\":" + std::to_string(viols)
        + ",\"nontrivial\":" + std::to_string(nontrivial) + ",\"faults_fired\":" + std::to_string(faults)
        + ",\"capped\":" + (capped ? "true" : "false") + ",\"last_idx\":" + std::to_string(lastIdx) + ",\"alloc_trips\":"
        + std::to_string(g_allocTrips) + ",\"elapsed\":" + std::to_string(elapsed());
    js += ",\"counters\":{";
    bool first = true;
    for (size_t i = 0; i < counters().names.size(); ++i) {
        js += (first ? "\"" : ",\"") + json_escape(counters().names[i]) + "\":" + std::to_string(counters().values[i]);
        first = false;
    }
    js += "},\"foreign\":{";
    first = true;
    for (auto const& kv : foreign) {
        js += (first ? "\"" : ",\"") + json_escape(kv.first) + "\":" + std::to_string(kv.second);
        first = false;
    }
    js += "},\"kf\":{";
    first = true;
    for (auto const& kv : kfCount) {
        js += (first ? "\"" : ",\"") + json_escape(kv.first) + "\":" + std::to_string(kv.second);
        first = false;
    }
    js += "},\"scenarios\":{";
    first = true;
    for (auto const& kv : perScenario) {
        js += (first ? "\"" : ",\"") + json_escape(kv.first) + "\":" + std::to_string(kv.second);
        first = false;
    }
    js += "},\"samples\":[";
    first = true;
    for (auto const& s : samples) {
        js += (first ? "\"" : ",\"") + json_escape(s) + "\"";
        first = false;
    }
    js += "]}";
    std::printf("STATS %s\n", js.c_str());
    std::fflush(stdout);
    return 0;
}

// ------------------------------------------------------------------------------------------------ replay mode
// exit 0: plan ran, no violation of plan.property; exit 1: violation reproduced (class printed);
// exit 77: crashed (CRASH line printed by the handlers)
inline auto cmd_replay(std::string const& path, bool quiet) -> int
{
    std::string text;
    if (!read_file(path, text)) {
        std::printf("HARNESS-ERROR cannot read %s\n", path.c_str());
        return 3;
    }
    Plan plan;
    std::string err;
    if (!plan_from_text(text, plan, err)) {
        std::printf("HARNESS-ERROR %s\n", err.c_str());
        return 3;
    }
    Scenario const& sc = *find_scenario(plan.scenario);
    g_crash.idx        = -1;
    watchdog(20);
    auto r = eval_plan(plan, sc, plan.property, !quiet);
    watchdog(0);
    if (!quiet) {
        std::printf("%s", r.text.c_str());
        std::printf("LOGHASH %016llx\n", static_cast<unsigned long long>(r.hash));
    }
    int rc = 0;
    for (auto const& v : r.viols) {
        std::printf(
            "%s class=%s step=%d detail=%s\n",
            v.prop == plan.property ? "REPRODUCED" : "FOREIGN",
            v.cls().c_str(),
            v.step,
            v.detail.c_str()
        );
        if (v.prop == plan.property) {
            rc = 1;
        }
    }
    for (auto const& k : r.kf) {
        std::printf("KF %s\n", k.c_str());
    }
    if (rc == 0) {
        std::printf("NOT-REPRODUCED\n");
    }
    std::fflush(stdout);
    return rc;
}

// ------------------------------------------------------------------------------------------------ shrink mode
// Class of the violation of `prop` that `plan` produces, evaluated in a forked child ("" if none).
inline auto class_in_child(Plan const& plan, Scenario const& sc, std::string const& prop) -> std::string
{
    int fd[2];
    if (pipe(fd) != 0) {
        return "";
    }
    std::fflush(stdout);
    pid_t pid = fork();
    if (pid == 0) {
        close(fd[0]);
        dup2(fd[1], 1); // CRASH lines go to the pipe too
        int devnull = open("/dev/null", 1);
        if (devnull >= 0) {
            dup2(devnull, 2);
        }
        g_counting  = false;
        g_crash.idx = -1;
        watchdog(4);
        auto r = eval_plan(plan, sc, prop, false);
        std::string cls;
        for (auto const& v : r.viols) {
            if (v.prop == prop) {
                cls = v.cls();
                break;
            }
        }
        std::string msg = "CLASS " + cls + "\n";
        (void)!write(1, msg.data(), msg.size());
        _exit(0);
    }
    close(fd[1]);
    std::string got;
    char buf[1024];
    ssize_t n = 0;
    while ((n = read(fd[0], buf, sizeof(buf))) > 0) {
        got.append(buf, static_cast<size_t>(n));
    }
    close(fd[0]);
    int status = 0;
    waitpid(pid, &status, 0);
    bool const died = !(WIFEXITED(status) && WEXITSTATUS(status) == 0);
    if (died || got.find("CRASH ") != std::string::npos) {
        // crash class: property by step class, op by the op that was executing (read from the shared progress page)
        // (a death inside a valid call also means that the call did not deliver the specified result: for the functional
        // properties it counts as their violation as well, see crash_class in bin/check)
        bool const functional = prop == "C01" || prop == "C04" || prop == "C07" || prop == "C09" || prop == "C17" || prop == "C20";
        std::string p         = g_crash.stepClass == 2 ? "C05" : (functional ? prop : "C02");
        if (p != prop) {
            return "";
        }
        return p + ":crash:" + std::string(g_crash.op);
    }
    auto lp = got.find("CLASS ");
    if (lp == std::string::npos) {
        return "";
    }
    return got.substr(lp + 6, got.find('\n', lp) - lp - 6);
}

inline auto cmd_shrink(std::string const& in, std::string const& outPath) -> int
{
    std::string text;
    if (!read_file(in, text)) {
        std::printf("HARNESS-ERROR cannot read %s\n", in.c_str());
        return 3;
    }
    Plan plan;
    std::string err;
    if (!plan_from_text(text, plan, err)) {
        std::printf("HARNESS-ERROR %s\n", err.c_str());
        return 3;
    }
    Scenario const& sc       = *find_scenario(plan.scenario);
    std::string const prop   = plan.property;
    std::string const target = plan.expectClass;
    int evals                = 0;
    auto same                = [&](Plan const& cand) {
        ++evals;
        return class_in_child(cand, sc, prop) == target;
    };
    if (!same(plan)) {
        std::printf("SHRINK-FAILED original plan does not reproduce class %s\n", target.c_str());
        return 2;
    }
    // ddmin over the step list
    size_t n = 2;
    while (plan.steps.size() >= 2) {
        size_t const len   = plan.steps.size();
        size_t const chunk = (len + n - 1) / n;
        bool reduced       = false;
        for (size_t start = 0; start < len; start += chunk) {
            Plan cand = plan;
            cand.steps.erase(
                cand.steps.begin() + static_cast<long>(start),
                cand.steps.begin() + static_cast<long>(std::min(len, start + chunk))
            );
            if (!cand.steps.empty() && same(cand)) {
                plan    = cand;
                n       = std::max<size_t>(n - 1, 2);
                reduced = true;
                break;
            }
        }
        if (!reduced) {
            if (chunk == 1) {
                break;
            }
            n = std::min(len, n * 2);
        }
    }
    // configuration simplification
    auto tryCfg = [&](auto mut) {
        Plan cand = plan;
        mut(cand.cfg);
        if (same(cand)) {
            plan = cand;
        }
    };
    tryCfg([](Config& c) { c.pool = 1; });
    tryCfg([](Config& c) { c.pool = 2; });
    tryCfg([](Config& c) { c.garbage = 2; });
    tryCfg([](Config& c) { c.create = 0; });
    tryCfg([](Config& c) { c.alpha = 2; });
    // per-step simplification, two passes
    for (int pass = 0; pass < 2; ++pass) {
        for (size_t i = 0; i < plan.steps.size(); ++i) {
            // candidates are tried in order of simplicity; the first accepted one wins
            auto tryStep = [&](auto mut) -> bool {
                Plan cand   = plan;
                Step before = cand.steps[i];
                mut(cand.steps[i]);
                if (std::memcmp(&before, &cand.steps[i], sizeof(Step)) == 0) {
                    return true; // already that simple
                }
                if (same(cand)) {
                    plan = cand;
                    return true;
                }
                return false;
            };
            (void)(tryStep([](Step& s) { s.flt = 0; }) || tryStep([](Step& s) { s.flt = 1; }));
            (void)tryStep([](Step& s) { s.a = 0; });
            (void)(tryStep([](Step& s) { s.b = 0; }) || tryStep([](Step& s) { s.b = s.a; }));
            for (int j = 0; j < 3; ++j) {
                (void)(tryStep([j](Step& s) { s.k[j] = 0; }) || tryStep([j](Step& s) { s.k[j] = 1; })
                       || tryStep([j](Step& s) { s.k[j] = s.k[j] % 8; }));
            }
            for (int j = 0; j < 4; ++j) {
                (void)(tryStep([j](Step& s) { s.v[j] = 0; }) || tryStep([j](Step& s) { s.v[j] = 1; }));
            }
        }
    }
    write_file(outPath, plan_to_text(plan, sc));
    std::printf("SHRUNK steps=%zu evals=%d class=%s\n", plan.steps.size(), evals, target.c_str());
    return 0;
}

// write the plan of one seed (as the run mode would generate it) to a file
inline auto cmd_plan(std::map<std::string, std::string> const& opt) -> int
{
    auto get = [&](char const* k, char const* d) { auto it = opt.find(k); return it == opt.end() ? std::string(d) : it->second; };
    uint64_t const seed = std::strtoull(get("seed", "0").c_str(), nullptr, 10);
    std::string const prop = get("prop", "");
    auto const* sc = find_scenario(get("scenario", ""));
    if (sc == nullptr) {
        std::printf("HARNESS-ERROR unknown scenario\n");
        return 3;
    }
    Plan plan        = generate(*sc, seed, profile_for(prop));
    plan.property    = prop;
    plan.flavour     = get("flavour", "");
    plan.expectClass = get("class", "");
    write_file(get("out", "plan.txt"), plan_to_text(plan, *sc));
    return 0;
}

inline auto worker_main(int argc, char** argv) -> int
{
    char const* progress = nullptr;
    for (int i = 1; i + 1 < argc; ++i) {
        if (std::strcmp(argv[i], "--progress") == 0) {
            progress = argv[i + 1];
        }
    }
    setup_progress_page(progress);
    install_crash_handlers();
    std::setvbuf(stdout, nullptr, _IOLBF, 0);
    if (argc < 2) {
        std::printf("usage: %s list|run|replay|shrink|plan ...\n", argv[0]);
        return 3;
    }
    std::string const mode = argv[1];
    std::map<std::string, std::string> opt;
    std::vector<std::string> pos;
    for (int i = 2; i < argc; ++i) {
        std::string a = argv[i];
        if (a.rfind("--", 0) == 0) {
            auto eq = a.find('=');
            if (eq != std::string::npos) {
                opt[a.substr(2, eq - 2)] = a.substr(eq + 1);
            } else if (i + 1 < argc && std::string(argv[i + 1]).rfind("--", 0) != 0) {
                opt[a.substr(2)] = argv[++i];
            } else {
                opt[a.substr(2)] = "1";
            }
        } else {
            pos.push_back(a);
        }
    }
    if (opt.count("kf") != 0) {
        open_kf() = split(opt["kf"], ',');
    }
    if (mode == "list") {
        for (auto const& s : registry()) {
            std::string p;
            for (auto const& q : s.props) {
                p += (p.empty() ? "" : ",") + q;
            }
            std::printf("%s %s ops=%zu props=%s\n", s.family.c_str(), s.name.c_str(), s.ops.size(), p.c_str());
        }
        return 0;
    }
    if (mode == "run") {
        return cmd_run(opt);
    }
    if (mode == "replay" && !pos.empty()) {
        return cmd_replay(pos[0], opt.count("quiet") != 0);
    }
    if (mode == "shrink" && pos.size() >= 2) {
        return cmd_shrink(pos[0], pos[1]);
    }
    if (mode == "plan") {
        return cmd_plan(opt);
    }
    std::printf("HARNESS-ERROR bad command line\n");
    return 3;
}

} // namespace sim
