// Shared plumbing of the family drivers (CRTP): outcome handling of a library call, fault accounting,
// trap bookkeeping. The derived driver supplies resync(slot) and check_state(slot, prop, prefix).
#pragma once

#include "core.hpp"
#include "tracked.hpp"

namespace sim {

template <typename Derived>
struct DriverBase {
    Plan const& plan;
    Ctx& ctx;
    int pool;
    bool misuse; // F2 steps are executed (contract-checking flavour and not the C02 profile)
    // set by a driver for a step whose outcome the library documents (refusal, clamp): if the handler is entered there,
    // the documented answer was not given, which also breaks the functional property named here
    char const* answerProp = nullptr;
    // false for a step whose precondition belongs to an inner object (flat_set inserting into its full backing vector: the
    // key is built by flat_set before the vector can object), so that user code legitimately runs before the handler
    bool userCodeCheck = true;

    DriverBase(Plan const& p, Ctx& c)
        : plan(p)
        , ctx(c)
        , pool(p.cfg.pool < 1 ? 1 : (p.cfg.pool > 3 ? 3 : p.cfg.pool))
        , misuse(SIM_CHECKS != 0 && p.property != "C02")
    {
    }

    auto self() -> Derived& { return static_cast<Derived&>(*this); }

    void begin_op(char const* name, int a)
    {
        ctx.op        = name;
        answerProp    = nullptr;
        userCodeCheck = true;
        crash_set_op(name);
        ctx.log.s(name);
        ctx.log.kv("a", a);
    }

    void skip()
    {
        ctx.log.s(" skip");
        SIM_COUNT("steps.skipped");
    }

    void trapped_as_expected()
    {
        ++ctx.faultsFired;
        ++ctx.boundaryEvents;
        SIM_COUNT("F2.trapped_by_handler");
        count_dyn("guard." + trap_site());
        ctx.log.s(" ->trap");
        if (!trap_location_ok()) {
            ctx.violation("C05", "contract:no-location", "handler entered without a usable file/line");
        }
    }

    // Runs a library call on the object in arena slot `s`. Returns true if it completed normally.
    //   expectTrap: the step violates a precondition (F2) and the handler must be entered
    //   late:       the violation is not visible from the arguments; the object may be modified but must stay valid
    template <typename F>
    auto call(int s, bool expectTrap, bool late, F&& f) -> bool
    {
        if (expectTrap) {
            ctx.stepClass     = 2;
            g_crash.stepClass = 2;
        }
        reg().mark_harness_held();
        uint64_t const userCallsBefore = g_user_calls != nullptr ? g_user_calls() : 0;
        auto out = guarded(true, static_cast<F&&>(f));
        if (out == Outcome::trapped && expectTrap && !late && userCodeCheck && g_trap.userCalls != userCallsBefore) {
            // the violation is visible from the arguments alone: the handler has to run before any user code does
            ctx.violation("C05", "contract:user-code-before-handler", "an element constructor / assignment ran before the handler was entered at " + trap_site());
        }
        if (expectTrap && s >= 0 && !arena_guards_ok(s)) {
            ctx.violation("C05", "contract:damage-before-handler:guard", "memory outside the object was written by a precondition-violating call");
            arena_guards_repair(s);
        }
        ctx.stepClass     = 0;
        g_crash.stepClass = 0;
        if (out == Outcome::alloc_tripped) {
            if (s >= 0) {
                self().resync(s);
            }
            return false;
        }
        if (out == Outcome::trapped) {
            reg().forgive_outside_arena();
            if (expectTrap) {
                trapped_as_expected();
                if (s >= 0) {
                    if (late) {
                        self().resync(s);
                    } else if (!self().check_state(s, "C05", "contract:modified-before-handler")) {
                        self().resync(s);
                    }
                }
            } else {
                ctx.violation("C05", "contract:spurious", "handler entered on a valid call at " + trap_site());
                if (answerProp != nullptr) {
                    ctx.violation(answerProp, "refusal:trapped-instead", "a call with a documented answer at capacity entered the handler at " + trap_site());
                }
                ctx.log.s(" ->spurious-trap");
                if (s >= 0) {
                    self().resync(s);
                }
            }
            return false;
        }
        if (expectTrap) {
            ctx.violation("C05", "contract:not-entered", "precondition violated but the handler was not entered");
            ctx.log.s(" ->no-trap");
            if (s >= 0) {
                self().resync(s);
            }
            return false;
        }
        return true;
    }

    // observation code path: no allocator tripwire, a trap here is a spurious firing
    template <typename F>
    auto observe(char const* what, F&& f) -> bool
    {
        auto out = guarded(false, static_cast<F&&>(f));
        if (out != Outcome::completed) {
            ctx.violation("C05", "contract:spurious", std::string("handler entered while observing (") + what + ") at " + trap_site());
            return false;
        }
        return true;
    }

    void temporaries_must_be_gone()
    {
        if (size_t const strays = reg().strays_in_arena(); strays != 0 && ctx.stepClass != 2) {
            ctx.violation("C02", "memory:object-outside-its-owner", std::to_string(strays) + " element(s) were constructed outside the storage of the object that owns them");
        }
        if (reg().live_outside_arena() != 0) {
            ctx.violation("C03", "lifetime:temporary-leaked", "a temporary element is still alive after the call returned");
            reg().harnessHeld.clear();
            reg().forgive_outside_arena();
        }
    }
};

} // namespace sim
