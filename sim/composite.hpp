// Element types that are themselves built from library types: when the outer container shifts, rotates, swaps, copies
// or destroys its elements, the inner containers' special members are driven by the outer algorithm.
#pragma once

#if defined(__clang__)
// clang 14 cannot compile <etl/optional.hpp> (variant visit): only the name is needed there
namespace sim {
struct Nest;
}
#else

    #include <etl/optional.hpp>
    #include <etl/string.hpp>
    #include <etl/vector.hpp>

    #include "tracked.hpp"

namespace sim {

struct Nest {
    etl::static_vector<Tracked, 2> items; // v % 3 copies of v
    etl::optional<Tracked> tag;           // engaged (with v) for odd v
    etl::inplace_string<7> text;          // v % 8 times the letter 'a' + v % 26
    int v = 0;

    Nest()
        : Nest(0)
    {
    }

    Nest(int x) // NOLINT
        : v(x)
    {
        unsigned const u = static_cast<unsigned>(x);
        for (unsigned i = 0; i < u % 3; ++i) {
            items.emplace_back(x);
        }
        if (u % 2 == 1) {
            tag.emplace(x);
        }
        text.append(u % 8, static_cast<char>('a' + u % 26));
    }

    // the value, or -4242 if the parts no longer agree with each other (a part was lost, duplicated or mixed up)
    explicit operator long long() const
    {
        unsigned const u = static_cast<unsigned>(v);
        bool ok          = items.size() == u % 3 && tag.has_value() == (u % 2 == 1) && text.size() == u % 8;
        for (auto const& e : items) {
            ok = ok && e.v == v;
        }
        if (tag.has_value()) {
            ok = ok && tag->v == v;
        }
        for (auto c : text) {
            ok = ok && c == static_cast<char>('a' + u % 26);
        }
        return ok ? v : -4242;
    }

    friend auto operator==(Nest const& a, Nest const& b) -> bool { return a.v == b.v; }

    friend auto operator!=(Nest const& a, Nest const& b) -> bool { return a.v != b.v; }

    friend auto operator<(Nest const& a, Nest const& b) -> bool { return a.v < b.v; }

    friend auto operator>(Nest const& a, Nest const& b) -> bool { return a.v > b.v; }

    friend auto operator<=(Nest const& a, Nest const& b) -> bool { return a.v <= b.v; }

    friend auto operator>=(Nest const& a, Nest const& b) -> bool { return a.v >= b.v; }
};

} // namespace sim

#endif
