// Deterministic simulator core for tetl: PRNG, plans, event log, trap (assert/exception handler) seam,
// arena with guards and seeded garbage, allocator tripwire interface, counters, scenario registry.
// Everything a run does is a pure function of (plan, code). No clock, no libc rand, no addresses in logs.
#pragma once

#include <csetjmp>
#include <cstdarg>
#include <cstdint>
#include <cstdio>
#include <cstdlib>
#include <cstring>
#include <functional>
#include <map>
#include <string>
#include <type_traits>
#include <unordered_set>
#include <vector>

#if defined(__SANITIZE_ADDRESS__)
    #include <sanitizer/asan_interface.h>
    #define SIM_ASAN 1
#else
    #define SIM_ASAN 0
#endif

#if defined(SIM_VALGRIND)
    #include <valgrind/memcheck.h>
#endif

#if defined(TETL_ENABLE_CONTRACT_CHECKS_SAFE)
    #define SIM_CHECKS 2
#elif defined(TETL_ENABLE_CONTRACT_CHECKS)
    #define SIM_CHECKS 1
#else
    #define SIM_CHECKS 0
#endif

namespace sim {

// ------------------------------------------------------------------------------------------------ PRNG
inline constexpr auto mix64(uint64_t x) -> uint64_t
{
    x += 0x9E3779B97F4A7C15ULL;
    x = (x ^ (x >> 30)) * 0xBF58476D1CE4E5B9ULL;
    x = (x ^ (x >> 27)) * 0x94D049BB133111EBULL;
    return x ^ (x >> 31);
}

struct Rng {
    uint64_t s[4];

    explicit Rng(uint64_t seed)
    {
        uint64_t z = seed;
        for (auto& w : s) {
            z += 0x9E3779B97F4A7C15ULL;
            w = mix64(z);
        }
    }

    static auto rotl(uint64_t x, int k) -> uint64_t { return (x << k) | (x >> (64 - k)); }

    auto next() -> uint64_t
    {
        uint64_t const result = rotl(s[1] * 5, 7) * 9;
        uint64_t const t      = s[1] << 17;
        s[2] ^= s[0];
        s[3] ^= s[1];
        s[1] ^= s[2];
        s[0] ^= s[3];
        s[2] ^= t;
        s[3] = rotl(s[3], 45);
        return result;
    }

    auto below(uint64_t n) -> uint64_t { return n == 0 ? 0 : next() % n; }

    auto pct(unsigned p) -> bool { return below(100) < p; }
};

// ------------------------------------------------------------------------------------------------ plan
struct Step {
    int op = 0;           // index into the scenario's op table
    uint32_t a = 0, b = 0; // pool slots (interpreted modulo pool size)
    uint64_t k[3] = {};   // positions / counts / selectors (interpreted modulo observable state)
    int flt = 0;          // attached fault: 0 none, 1 at boundary, 2 boundary+1, 3 max, 4 valid-modulo-2^k
    int64_t v[4] = {};    // values
};

struct Config {
    int pool = 2;        // number of pool objects (1..3)
    int alpha = 4;       // value alphabet size
    int garbage = 0;     // 0:0x00 1:0xFF 2:0xA5 3:seeded random
    uint64_t gseed = 1;  // seed of the garbage generator
    uint32_t create = 0; // bit i: slot i is default-initialised (else value-initialised)
    int faultPct = 0;    // informational: generator's per-step fault percentage
};

struct Plan {
    std::string family;
    std::string scenario;
    std::string flavour;
    std::string property;
    std::string expectClass;
    uint64_t seed = 0;
    Config cfg;
    std::vector<Step> steps;
};

// ------------------------------------------------------------------------------------------------ log
struct Log {
    uint64_t h = 0xcbf29ce484222325ULL;
    bool text = false;
    std::string out;

    void feed(uint64_t x)
    {
        h ^= x;
        h *= 0x100000001b3ULL;
        h ^= h >> 29;
    }

    void s(char const* str)
    {
        for (char const* p = str; *p != 0; ++p) {
            feed(static_cast<unsigned char>(*p));
        }
        if (text) {
            out += str;
        }
    }

    void i(long long x)
    {
        feed(static_cast<uint64_t>(x) ^ 0x5bd1e995ULL);
        if (text) {
            out += ' ';
            out += std::to_string(x);
        }
    }

    void u(unsigned long long x)
    {
        feed(static_cast<uint64_t>(x) ^ 0x5bd1e995ULL);
        if (text) {
            out += ' ';
            out += std::to_string(x);
        }
    }

    void kv(char const* key, long long x)
    {
        s(" ");
        s(key);
        s("=");
        feed(static_cast<uint64_t>(x));
        if (text) {
            out += std::to_string(x);
        }
    }

    void nl()
    {
        feed(10);
        if (text) {
            out += '\n';
        }
    }
};

// ------------------------------------------------------------------------------------------------ counters
struct Counters {
    std::vector<std::string> names;
    std::vector<uint64_t> values;

    auto id(char const* name) -> int
    {
        for (size_t i = 0; i < names.size(); ++i) {
            if (names[i] == name) {
                return static_cast<int>(i);
            }
        }
        names.emplace_back(name);
        values.push_back(0);
        return static_cast<int>(names.size() - 1);
    }
};

inline auto counters() -> Counters&
{
    static Counters c;
    return c;
}

inline bool g_counting = true; // switched off during shrinking / second garbage pass

#define SIM_COUNT(name)                                                                                                \
    do {                                                                                                               \
        static int const simCounterId_ = ::sim::counters().id(name);                                                   \
        if (::sim::g_counting) {                                                                                       \
            ++::sim::counters().values[static_cast<size_t>(simCounterId_)];                                            \
        }                                                                                                              \
    } while (false)

inline void count_dyn(std::string const& name)
{
    if (g_counting) {
        ++counters().values[static_cast<size_t>(counters().id(name.c_str()))];
    }
}

// state / transition coverage (hash sets, merged by the supervisor)
inline auto states() -> std::unordered_set<uint64_t>&
{
    static std::unordered_set<uint64_t> s;
    return s;
}

inline auto transitions() -> std::unordered_set<uint64_t>&
{
    static std::unordered_set<uint64_t> s;
    return s;
}

inline auto hstr(char const* s) -> uint64_t
{
    uint64_t h = 1469598103934665603ULL;
    for (; *s != 0; ++s) {
        h = (h ^ static_cast<unsigned char>(*s)) * 1099511628211ULL;
    }
    return h;
}

// ------------------------------------------------------------------------------------------------ violations
struct Violation {
    std::string prop;   // "C01"
    std::string clause; // "diff:size"
    std::string op;     // op kind at which it was detected
    int step = -1;
    std::string detail;

    [[nodiscard]] auto cls() const -> std::string { return prop + ":" + clause + ":" + op; }
};

struct Ctx {
    Log log;
    std::vector<Violation> viols;
    std::vector<std::string> kfSeen; // known findings reproduced in this run
    bool stop = false;               // run cannot go on (object state no longer trustworthy)
    int step = -1;
    char const* op = "-";
    int stepClass = 0; // 0 valid, 1 F1, 2 F2 (misuse), used for crash attribution
    std::string running; // the property whose check this run belongs to
    // run statistics
    int stateChanging = 0;
    int boundaryEvents = 0;
    int faultsFired = 0;

    void violation(char const* prop, std::string clause, std::string detail)
    {
        // only the first violation per (property) is kept: later ones are usually consequences
        for (auto const& v : viols) {
            if (v.prop == prop) {
                return;
            }
        }
        bool const spurious = std::string(prop) == "C05" && clause.rfind("contract:spurious", 0) == 0;
        viols.push_back(Violation{prop, std::move(clause), op, step, detail});
        if (spurious && (running == "C01" || running == "C04" || running == "C07" || running == "C09" || running == "C17" || running == "C20")) {
            // the handler fired on a valid call: the call did not deliver the specified result either
            violation(running.c_str(), "trapped:valid-call", detail);
        }
    }

    [[nodiscard]] auto has(char const* prop) const -> bool
    {
        for (auto const& v : viols) {
            if (v.prop == prop) {
                return true;
            }
        }
        return false;
    }

    void kf(char const* id)
    {
        for (auto const& k : kfSeen) {
            if (k == id) {
                return;
            }
        }
        kfSeen.emplace_back(id);
    }
};

inline Ctx* g_ctx = nullptr;

// crash attribution: written before every step with plain stores into a MAP_SHARED page (file-backed when the
// supervisor asks for it), so that whoever waits for this process can see where it died even when the
// sanitizer runtime exits without running any callback
struct CrashInfo {
    long idx;
    long runs;
    long steps;
    uint64_t seed;
    int step;
    int stepClass;
    char op[48];
    char scenario[96];
};

inline CrashInfo g_crashLocal{};
inline CrashInfo* volatile g_crashp = &g_crashLocal;
#define g_crash (*::sim::g_crashp)

inline void crash_set_op(char const* name)
{
    std::strncpy(g_crash.op, name, sizeof(g_crash.op) - 1);
    asm volatile("" ::: "memory"); // the stores above must be in memory before the library call that may die
}

inline void crash_set_scenario(char const* name)
{
    std::strncpy(g_crash.scenario, name, sizeof(g_crash.scenario) - 1);
}

// open known findings (ids), set from the command line by the supervisor from known_findings.json
inline auto open_kf() -> std::vector<std::string>&
{
    static std::vector<std::string> v;
    return v;
}

inline auto kf_open(char const* id) -> bool
{
    for (auto const& k : open_kf()) {
        if (k == id) {
            return true;
        }
    }
    return false;
}

// ------------------------------------------------------------------------------------------------ trap seam
struct Trap {
    jmp_buf env;
    bool armed = false;
    int entered = 0;
    int line = 0;
    char const* file = nullptr;
    char const* func = nullptr;
    char const* expr = nullptr;
    bool isException = false;
    bool allocTrip = false;
    char const* allocWhat = nullptr;
    uint64_t userCalls = 0; // special-member calls of instrumented types seen when the handler was entered
};

inline Trap g_trap;
// number of special-member calls of the instrumented element types so far (installed by tracked.hpp)
inline uint64_t (*g_user_calls)() = nullptr;
inline int g_libDepth = 0; // >0 while a library (SUT) call is on the stack: allocator tripwire armed

enum class Outcome { completed, trapped, alloc_tripped };

// Runs f() with the handler armed. Returns how it ended. After a trap the stack frames of f are abandoned.
template <typename F>
[[gnu::noinline]] auto guarded(bool lib, F&& f) -> Outcome
{
    g_trap.armed       = true;
    g_trap.entered     = 0;
    g_trap.allocTrip   = false;
    g_trap.file        = nullptr;
    g_trap.line        = 0;
    g_trap.expr        = nullptr;
    g_trap.func        = nullptr;
    g_trap.isException = false;
    if (setjmp(g_trap.env) == 0) {
        if (lib) {
            ++g_libDepth;
        }
        f();
        g_libDepth   = 0;
        g_trap.armed = false;
        return Outcome::completed;
    }
    g_libDepth   = 0;
    g_trap.armed = false;
    return g_trap.allocTrip ? Outcome::alloc_tripped : Outcome::trapped;
}

// location check of a fired contract: must name a file inside the library's include tree and a positive line
inline auto trap_location_ok() -> bool
{
    if (g_trap.isException) {
        return true; // etl::raise() passes no location to a custom exception handler (by design of the seam)
    }
    return g_trap.file != nullptr && g_trap.line > 0 && std::strstr(g_trap.file, "etl/") != nullptr;
}

inline auto trap_site() -> std::string
{
    if (g_trap.isException) {
        return std::string("exception:") + (g_trap.expr != nullptr ? g_trap.expr : "?");
    }
    std::string f = g_trap.file != nullptr ? g_trap.file : "?";
    auto pos      = f.find("include/etl/");
    if (pos != std::string::npos) {
        f = f.substr(pos + 8);
    }
    return f + ":" + std::to_string(g_trap.line);
}

// ------------------------------------------------------------------------------------------------ arena
inline constexpr size_t kGuard     = 64;
inline constexpr size_t kSlotBytes = 24576;
inline constexpr int kSlots        = 8;
alignas(64) inline unsigned char g_arena[kSlots][kSlotBytes];
inline size_t g_slotObj[kSlots] = {}; // object bytes currently guarded in the slot (0 = none)
// Bytes in front of the object: the guard plus, for minimally aligned placement, alignof(object) more - the object then
// sits at an address that is a multiple of its own alignment but of nothing larger (the arena itself is 64-byte aligned,
// which would hide a type whose alignment requirement is understated)
inline size_t g_slotFront[kSlots] = {kGuard, kGuard, kGuard, kGuard, kGuard, kGuard, kGuard, kGuard};

inline auto garbage_byte(Config const& cfg, uint64_t& st) -> unsigned char
{
    switch (cfg.garbage) {
    case 0: return 0x00;
    case 1: return 0xFF;
    case 2: return 0xA5;
    default: st = mix64(st); return static_cast<unsigned char>(st >> 13);
    }
}

inline auto round8(size_t n) -> size_t { return (n + 7U) & ~size_t{7}; }

inline auto slot_obj(int slot) -> unsigned char* { return g_arena[slot] + g_slotFront[slot]; }

inline auto arena_rel(void const* p) -> long
{
    auto const* c = static_cast<unsigned char const*>(p);
    if (c >= &g_arena[0][0] && c < &g_arena[0][0] + sizeof(g_arena)) {
        return static_cast<long>(c - &g_arena[0][0]);
    }
    return -1;
}

inline auto in_arena(void const* p) -> bool { return arena_rel(p) >= 0; }

// Fill the slot with garbage, lay down canaries, poison guards. Returns the object address.
inline auto arena_prepare(int slot, size_t objBytes, Config const& cfg, uint64_t salt, size_t align = 0) -> void*
{
    if (objBytes + 3 * kGuard + 8 > kSlotBytes) {
        std::fprintf(stderr, "HARNESS-ERROR arena slot too small for %zu bytes\n", objBytes);
        std::_Exit(3);
    }
    unsigned char* base = g_arena[slot];
#if SIM_ASAN
    __asan_unpoison_memory_region(base, kSlotBytes);
#endif
    // bit 6 of the creation mask: this run places its objects at minimally aligned addresses
    size_t const extra = (align != 0 && align < kGuard && ((cfg.create >> 6) & 1U) != 0) ? align : 0;
    size_t const front = kGuard + extra;
    g_slotFront[slot]  = front;
    uint64_t st        = cfg.gseed ^ mix64(salt + static_cast<uint64_t>(slot));
    size_t const body  = round8(objBytes);
    for (size_t i = 0; i < body; ++i) {
        base[front + i] = garbage_byte(cfg, st);
    }
    std::memset(base, 0xC7, front);
    std::memset(base + front + body, 0xC7, kGuard);
    g_slotObj[slot] = objBytes;
#if SIM_ASAN
    __asan_poison_memory_region(base, front);
    __asan_poison_memory_region(base + front + body, kGuard);
#endif
#if defined(SIM_VALGRIND)
    VALGRIND_MAKE_MEM_UNDEFINED(base + front, body);
#endif
    return base + front;
}

inline auto arena_guards_ok(int slot) -> bool
{
    if (g_slotObj[slot] == 0) {
        return true;
    }
    unsigned char* base = g_arena[slot];
    size_t const front  = g_slotFront[slot];
    size_t const body   = round8(g_slotObj[slot]);
#if SIM_ASAN
    __asan_unpoison_memory_region(base, front);
    __asan_unpoison_memory_region(base + front + body, kGuard);
#endif
    bool ok = true;
    for (size_t i = 0; i < front; ++i) {
        ok = ok && base[i] == 0xC7;
    }
    for (size_t i = 0; i < kGuard; ++i) {
        ok = ok && base[front + body + i] == 0xC7;
    }
#if SIM_ASAN
    __asan_poison_memory_region(base, front);
    __asan_poison_memory_region(base + front + body, kGuard);
#endif
    return ok;
}

inline void arena_guards_repair(int slot)
{
    if (g_slotObj[slot] == 0) {
        return;
    }
    unsigned char* base = g_arena[slot];
    size_t const front  = g_slotFront[slot];
    size_t const body   = round8(g_slotObj[slot]);
#if SIM_ASAN
    __asan_unpoison_memory_region(base, front);
    __asan_unpoison_memory_region(base + front + body, kGuard);
#endif
    std::memset(base, 0xC7, front);
    std::memset(base + front + body, 0xC7, kGuard);
#if SIM_ASAN
    __asan_poison_memory_region(base, front);
    __asan_poison_memory_region(base + front + body, kGuard);
#endif
}

// After destruction: overwrite with a different pattern and poison, so any later access is visible.
inline void arena_retire(int slot)
{
    if (g_slotObj[slot] == 0) {
        return;
    }
    unsigned char* base = g_arena[slot];
    size_t const front  = g_slotFront[slot];
#if SIM_ASAN
    __asan_unpoison_memory_region(base, kSlotBytes);
#endif
    std::memset(base + front, 0xDD, round8(g_slotObj[slot]));
#if SIM_ASAN
    __asan_poison_memory_region(base, front + round8(g_slotObj[slot]) + kGuard);
#endif
    g_slotObj[slot] = 0;
}

inline void arena_reset_all()
{
#if SIM_ASAN
    __asan_unpoison_memory_region(&g_arena[0][0], sizeof(g_arena));
#endif
    for (auto& s : g_slotObj) {
        s = 0;
    }
    for (auto& f : g_slotFront) {
        f = kGuard;
    }
}

// Exact-size heap buffer for caller-provided ranges / C strings (allocated outside library calls).
template <typename T>
struct ExactBuf {
    T* p     = nullptr;
    size_t n = 0;

    static auto allocate(size_t count) -> T*
    {
        size_t const bytes = count == 0 ? 1 : count * sizeof(T);
        if constexpr (alignof(T) > 16) {
            // over-aligned element types: malloc only guarantees alignof(max_align_t)
            return static_cast<T*>(std::aligned_alloc(alignof(T), (bytes + alignof(T) - 1) / alignof(T) * alignof(T)));
        } else {
            return static_cast<T*>(std::malloc(bytes));
        }
    }

    explicit ExactBuf(size_t count)
        : p(allocate(count))
        , n(count)
    {
        // with count == 0 the one allocated byte is never part of a valid range
    }

    ExactBuf(ExactBuf const&)                    = delete;
    auto operator=(ExactBuf const&) -> ExactBuf& = delete;

    ~ExactBuf() { std::free(p); }

    [[nodiscard]] auto begin() const -> T* { return p; }

    [[nodiscard]] auto end() const -> T* { return p + n; }
};

// ------------------------------------------------------------------------------------------------ scenarios
struct OpDef {
    char const* name;
    int weight;
};

struct Scenario {
    std::string family;
    std::string name;
    std::vector<OpDef> ops;
    std::function<void(Plan const&, Ctx&)> run;
    std::vector<std::string> props; // properties this scenario's oracles can decide
    int maxSteps = 40;
    // false for scenarios whose library code is selected per compiler (`#if defined(__clang__)` builtins): their logs are
    // left out of the g++ / clang comparison
    bool compilerNeutral = true;

    [[nodiscard]] auto op_index(std::string const& n) const -> int
    {
        for (size_t i = 0; i < ops.size(); ++i) {
            if (n == ops[i].name) {
                return static_cast<int>(i);
            }
        }
        return -1;
    }

    [[nodiscard]] auto serves(std::string const& p) const -> bool
    {
        for (auto const& q : props) {
            if (q == p) {
                return true;
            }
        }
        return false;
    }
};

inline auto registry() -> std::vector<Scenario>&
{
    static std::vector<Scenario> r;
    return r;
}

inline auto find_scenario(std::string const& name) -> Scenario const*
{
    for (auto const& s : registry()) {
        if (s.name == name) {
            return &s;
        }
    }
    return nullptr;
}

// ------------------------------------------------------------------------------------------------ generation
// Profiles tune the swarm per property; every choice still comes from the one PRNG.
struct Profile {
    int faultFreePct = 33; // share of runs with no faults at all
    int maxFaultPct  = 25;
    bool misuse      = true; // F2 steps allowed (only executed in contract-checking flavours)
};

inline auto gen_k(Rng& r) -> uint64_t
{
    auto const c = r.below(100);
    if (c < 55) {
        return r.below(9);
    }
    if (c < 75) {
        return r.below(300);
    }
    if (c < 83) {
        static constexpr uint64_t edge[] = {14, 15, 16, 17, 31, 32, 254, 255, 256, 257};
        return edge[r.below(10)];
    }
    if (c < 91) {
        static constexpr uint64_t huge[] = {
            0x7FFFFFFFULL,
            0x80000000ULL,
            0xFFFFFFFFULL,
            0x100000000ULL,
            0x7FFFFFFFFFFFFFFFULL,
            0x8000000000000000ULL,
            0xFFFFFFFFFFFFFFFEULL,
            0xFFFFFFFFFFFFFFFFULL,
        };
        return huge[r.below(8)];
    }
    return r.next() >> 32;
}

inline auto generate(Scenario const& sc, uint64_t seed, Profile const& prof) -> Plan
{
    Rng r(seed);
    Plan p;
    p.family   = sc.family;
    p.scenario = sc.name;
    p.seed     = seed;
    // swarm configuration
    p.cfg.pool    = 1 + static_cast<int>(r.below(3));
    p.cfg.alpha   = 2 + static_cast<int>(r.below(7));
    p.cfg.garbage = static_cast<int>(r.below(4));
    p.cfg.gseed   = r.next() | 1U;
    p.cfg.create  = static_cast<uint32_t>(r.below(256));
    bool const faultFree = r.pct(static_cast<unsigned>(prof.faultFreePct));
    p.cfg.faultPct       = faultFree ? 0 : 1 + static_cast<int>(r.below(static_cast<uint64_t>(prof.maxFaultPct)));
    // history length: biased to short
    auto len = static_cast<int>(r.pct(70) ? 1 + r.below(12) : 1 + r.below(static_cast<uint64_t>(sc.maxSteps)));
    // one run in 64 is DEEP: 4 to 16 times the scenario's usual maximum (several hundred steps on the same few objects), for
    // what only shows after many fill / drain cycles. Decided from the seed itself, not from the stream, so that the other
    // 63 plans stay what they were.
    if (mix64(seed ^ 0x64656570ULL) % 64 == 0) {
        len = sc.maxSteps * static_cast<int>(4 + mix64(seed ^ 0x6c656eULL) % 13);
    }
    // per-run op weights: a random subset of ops is boosted or silenced
    std::vector<int> w;
    int total = 0;
    for (auto const& o : sc.ops) {
        int x = o.weight;
        auto c = r.below(10);
        if (c == 0) {
            x = 0;
        } else if (c == 1) {
            x *= 4;
        }
        w.push_back(x);
        total += x;
    }
    if (total == 0) {
        w.assign(sc.ops.size(), 1);
        total = static_cast<int>(sc.ops.size());
    }
    for (int i = 0; i < len; ++i) {
        Step s;
        auto pick = static_cast<int>(r.below(static_cast<uint64_t>(total)));
        for (size_t j = 0; j < w.size(); ++j) {
            if (pick < w[j]) {
                s.op = static_cast<int>(j);
                break;
            }
            pick -= w[j];
        }
        s.a = static_cast<uint32_t>(r.below(6));
        s.b = static_cast<uint32_t>(r.below(6));
        for (auto& k : s.k) {
            k = gen_k(r);
        }
        for (auto& v : s.v) {
            v = static_cast<int64_t>(r.below(static_cast<uint64_t>(p.cfg.alpha)));
        }
        s.flt = (p.cfg.faultPct != 0 && r.pct(static_cast<unsigned>(p.cfg.faultPct))) ? 1 + static_cast<int>(r.below(4)) : 0;
        p.steps.push_back(s);
    }
    return p;
}

// ------------------------------------------------------------------------------------------------ plan text
inline auto plan_to_text(Plan const& p, Scenario const& sc) -> std::string
{
    std::string o = "tetl-sim-plan 1\n";
    o += "family " + p.family + "\n";
    o += "scenario " + p.scenario + "\n";
    o += "flavour " + p.flavour + "\n";
    o += "property " + p.property + "\n";
    o += "class " + p.expectClass + "\n";
    o += "seed " + std::to_string(p.seed) + "\n";
    char buf[256];
    std::snprintf(
        buf,
        sizeof(buf),
        "cfg pool=%d alpha=%d garbage=%d gseed=%llu create=%u faultpct=%d\n",
        p.cfg.pool,
        p.cfg.alpha,
        p.cfg.garbage,
        static_cast<unsigned long long>(p.cfg.gseed),
        p.cfg.create,
        p.cfg.faultPct
    );
    o += buf;
    for (auto const& s : p.steps) {
        std::snprintf(
            buf,
            sizeof(buf),
            "step %s a=%u b=%u k=%llu,%llu,%llu flt=%d v=%lld,%lld,%lld,%lld\n",
            sc.ops[static_cast<size_t>(s.op)].name,
            s.a,
            s.b,
            static_cast<unsigned long long>(s.k[0]),
            static_cast<unsigned long long>(s.k[1]),
            static_cast<unsigned long long>(s.k[2]),
            s.flt,
            static_cast<long long>(s.v[0]),
            static_cast<long long>(s.v[1]),
            static_cast<long long>(s.v[2]),
            static_cast<long long>(s.v[3])
        );
        o += buf;
    }
    return o;
}

inline auto plan_from_text(std::string const& text, Plan& p, std::string& err) -> bool
{
    size_t pos = 0;
    Scenario const* sc = nullptr;
    bool header = false;
    while (pos < text.size()) {
        auto nl          = text.find('\n', pos);
        std::string line = text.substr(pos, nl == std::string::npos ? std::string::npos : nl - pos);
        pos              = nl == std::string::npos ? text.size() : nl + 1;
        if (line.empty() || line[0] == '#') {
            continue;
        }
        auto sp          = line.find(' ');
        std::string key  = line.substr(0, sp);
        std::string rest = sp == std::string::npos ? "" : line.substr(sp + 1);
        if (key == "tetl-sim-plan") {
            header = true;
        } else if (key == "family") {
            p.family = rest;
        } else if (key == "scenario") {
            p.scenario = rest;
            sc         = find_scenario(rest);
            if (sc == nullptr) {
                err = "unknown scenario " + rest;
                return false;
            }
        } else if (key == "flavour") {
            p.flavour = rest;
        } else if (key == "property") {
            p.property = rest;
        } else if (key == "class") {
            p.expectClass = rest;
        } else if (key == "seed") {
            p.seed = std::strtoull(rest.c_str(), nullptr, 10);
        } else if (key == "cfg") {
            unsigned long long gs = 0;
            if (std::sscanf(
                    rest.c_str(),
                    "pool=%d alpha=%d garbage=%d gseed=%llu create=%u faultpct=%d",
                    &p.cfg.pool,
                    &p.cfg.alpha,
                    &p.cfg.garbage,
                    &gs,
                    &p.cfg.create,
                    &p.cfg.faultPct
                )
                != 6) {
                err = "bad cfg line";
                return false;
            }
            p.cfg.gseed = gs;
        } else if (key == "step") {
            if (sc == nullptr) {
                err = "step before scenario";
                return false;
            }
            char name[64];
            Step s;
            unsigned long long k0 = 0, k1 = 0, k2 = 0;
            long long v0 = 0, v1 = 0, v2 = 0, v3 = 0;
            if (std::sscanf(
                    rest.c_str(),
                    "%63s a=%u b=%u k=%llu,%llu,%llu flt=%d v=%lld,%lld,%lld,%lld",
                    name,
                    &s.a,
                    &s.b,
                    &k0,
                    &k1,
                    &k2,
                    &s.flt,
                    &v0,
                    &v1,
                    &v2,
                    &v3
                )
                != 11) {
                err = "bad step line: " + rest;
                return false;
            }
            s.op = sc->op_index(name);
            if (s.op < 0) {
                err = std::string("unknown op ") + name;
                return false;
            }
            s.k[0] = k0;
            s.k[1] = k1;
            s.k[2] = k2;
            s.v[0] = v0;
            s.v[1] = v1;
            s.v[2] = v2;
            s.v[3] = v3;
            p.steps.push_back(s);
        } else if (key == "expect" || key == "note") {
            // informational
        } else {
            err = "unknown key " + key;
            return false;
        }
    }
    if (!header || sc == nullptr) {
        err = "not a plan file";
        return false;
    }
    return true;
}

// fault distance helper: boundary + {0, 1, max}
// fault distance helper: boundary + {0, 1}, the maximum, or (flt 4) a value that is valid modulo 2^8 / 2^16 / 2^32 -
// a guard that compares after truncating to a narrower type lets exactly these through
inline auto beyond(uint64_t boundary, int flt, uint64_t maxv = ~uint64_t{0}) -> uint64_t
{
    switch (flt) {
    case 1: return boundary;
    case 2: return boundary + 1;
    case 4: {
        uint64_t const low = boundary == 0 ? 0 : boundary - 1; // a valid value
        for (uint64_t wrap : {uint64_t{1} << 8, uint64_t{1} << 16, uint64_t{1} << 32}) {
            if (low + wrap >= boundary && low + wrap <= maxv && low + wrap > low) {
                return low + wrap;
            }
        }
        return maxv;
    }
    default: return maxv;
    }
}

} // namespace sim
