// A genuine single-pass input iterator over a counted range: copies share one consumable source (like
// std::istream_iterator), so the range can be traversed once only. Its category is usable by std and by etl algorithms.
#pragma once

#include <etl/_iterator/tags.hpp>

#include <cstddef>
#include <iterator>

namespace sim {

template <typename C>
struct OnePassSource {
    C const* p;
    size_t n;
    size_t pos;
};

struct OnePassTag : std::input_iterator_tag, etl::input_iterator_tag { };

template <typename C>
struct OnePassIt {
    using iterator_category = OnePassTag;
    using value_type        = C;
    using difference_type   = std::ptrdiff_t;
    using pointer           = C const*;
    using reference         = C const&;

    OnePassSource<C>* src = nullptr;

    auto operator*() const -> reference { return src->p[src->pos]; }

    auto operator++() -> OnePassIt&
    {
        ++src->pos;
        return *this;
    }

    auto operator++(int) -> OnePassIt
    {
        auto t = *this;
        ++src->pos;
        return t;
    }

    [[nodiscard]] auto at_end() const -> bool { return src == nullptr || src->pos >= src->n; }

    friend auto operator==(OnePassIt const& a, OnePassIt const& b) -> bool { return a.at_end() == b.at_end() && (a.at_end() || a.src == b.src); }

    friend auto operator!=(OnePassIt const& a, OnePassIt const& b) -> bool { return !(a == b); }
};

} // namespace sim
