#include "../common.hpp"
#include <etl/flat_set.hpp>
#include <etl/functional.hpp>
#include <etl/set.hpp>
#include <etl/vector.hpp>
auto main() -> int
{
    etl::static_set<int, 4, etl::greater<int>> a;
    a.insert(1);
    int const k = 2;
    a.insert(k);
    a.emplace(3);
    int const r[2] = {4, 4};
    a.insert(r, r + 2);
    a.erase(a.begin());
    a.erase(a.begin(), a.begin() + 1);
    a.erase(1);
    etl::static_set<int, 4, etl::less<>> t;
    t.insert(5);
    bool h = t.contains(5L) && t.count(5L) == 1 && t.find(5L) != t.end() && t.lower_bound(5L) == t.begin() && t.upper_bound(5L) == t.end();
    using V = etl::static_vector<int, 4>;
    etl::flat_set<int, V, etl::less<>> f;
    f.insert(1);
    f.insert(f.begin(), 2);
    f.emplace(3);
    f.emplace_hint(f.end(), 4);
    f.erase(1);
    f.erase(f.begin());
    f.erase(f.cbegin(), f.cbegin() + 1);
    auto er = f.equal_range(4L);
    h = h && f.contains(4L) && f.count(4) == 1 && f.find(4L) != f.end() && f.lower_bound(4L) == er.first && f.upper_bound(4L) == er.second;
    V c = static_cast<decltype(f)&&>(f).extract();
    f.replace(static_cast<V&&>(c));
    etl::flat_set<int, V, etl::less<>> g(etl::sorted_unique, V{});
    g.swap(f);
    etl::erase_if(g, [](int x) { return x == 4; });
    etl::flat_multiset<int, V> m(V{});
    etl::flat_multiset<int, V> m2(etl::sorted_equivalent, V{});
    return (h && g.empty() && m.empty() && m2.empty() && a.size() <= 4 && (g == f || g < f || g > f)) ? 0 : 1;
}
