#include <etl/bitset.hpp>
#include <etl/string_view.hpp>
auto main() -> int
{
    etl::bitset<9> a(0x155ULL);
    etl::bitset<9> b(etl::string_view("101"), 0, 3, '0', '1');
    etl::bitset<9> c("110", 3);
    a.set().reset().flip().set(1).set(2, false).reset(3).flip(4);
    a[5] = true;
    a[6] = a[5];
    a[7].flip();
    a &= b;
    a |= c;
    a ^= a;
    auto d = ~a & b | c ^ a;
    bool r = d.test(0) || d[1] || d.all() || d.any() || d.none() || d == a || d != a;
    auto s = d.to_string<9>();
    auto t = d.to_string<12>('.', 'X');
    etl::basic_bitset<20, unsigned char> e(0xFFFFFULL);
    e.unchecked_set(3).unchecked_reset(4).unchecked_flip(5);
    e[6] = e[7];
    return (r || s.size() == 9 || t.size() == 9 || d.count() + d.to_ulong() + d.to_ullong() + e.count() > 0 || e.unchecked_test(3)) ? 0 : 1;
}
