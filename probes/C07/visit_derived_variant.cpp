#include "../common.hpp"
#include <etl/variant.hpp>
// A class publicly derived from a variant is visited through its variant base (P2162, as std::visit does): the visitor
// is called with the active alternative, so a visitor that accepts only the alternatives - not the derived class - is a
// valid program.  A library that treats the derived object as a single non-variant argument either rejects this program
// or calls the visitor with the wrong object.
struct Value : etl::variant<int, char, long> {
    using variant::variant;
};
struct OnlyAlternatives {
    auto operator()(int x) const -> long { return 1000 + x; }
    auto operator()(char c) const -> long { return 2000 + c; }
    auto operator()(long l) const -> long { return 3000 + l; }
};
auto main() -> int
{
    Value a(7);
    Value const b('b');
    Value c(5L);
    long r = etl::visit(OnlyAlternatives{}, a) + etl::visit(OnlyAlternatives{}, b) + etl::visit(OnlyAlternatives{}, etl::move(c));
    return r == 1007 + 2098 + 3005 ? 0 : 1;
}
