// The monadic operations forward the user's callable: an rvalue functor is invoked as an rvalue
// (std: invoke(std::forward<F>(f), ...)), an lvalue functor as an lvalue. Decided at compile time.
#include "../common.hpp"
#include <etl/optional.hpp>
struct Next {
    constexpr auto operator()(int) & -> etl::optional<int> { return etl::optional<int>{1}; }
    constexpr auto operator()(int) const& -> etl::optional<int> { return etl::optional<int>{2}; }
    constexpr auto operator()(int) && -> etl::optional<int> { return etl::optional<int>{3}; }
    constexpr auto operator()(int) const&& -> etl::optional<int> { return etl::optional<int>{4}; }
};
struct Else {
    constexpr auto operator()() & -> etl::optional<int> { return etl::optional<int>{1}; }
    constexpr auto operator()() const& -> etl::optional<int> { return etl::optional<int>{2}; }
    constexpr auto operator()() && -> etl::optional<int> { return etl::optional<int>{3}; }
    constexpr auto operator()() const&& -> etl::optional<int> { return etl::optional<int>{4}; }
};
// and_then on an lvalue / const lvalue / rvalue / const rvalue optional, functor as rvalue and as lvalue
static_assert([] { etl::optional<int> o{5}; return *o.and_then(Next{}); }() == 3);
static_assert([] { etl::optional<int> o{5}; Next f; return *o.and_then(f); }() == 1);
static_assert([] { etl::optional<int> o{5}; Next const f{}; return *o.and_then(f); }() == 2);
static_assert([] { etl::optional<int> const o{5}; return *o.and_then(Next{}); }() == 3);
static_assert([] { etl::optional<int> const o{5}; Next f; return *o.and_then(f); }() == 1);
static_assert(*etl::optional<int>{5}.and_then(Next{}) == 3);
static_assert([] { Next f; return *etl::optional<int>{5}.and_then(f); }() == 1);
static_assert([] { etl::optional<int> const o{5}; return *static_cast<etl::optional<int> const&&>(o).and_then(Next{}); }() == 3);
// or_else on a disengaged optional
static_assert([] { etl::optional<int> o; return *o.or_else(Else{}); }() == 3);
static_assert([] { etl::optional<int> o; Else f; return *o.or_else(f); }() == 1);
static_assert(*etl::optional<int>{}.or_else(Else{}) == 3);
auto main() -> int { return 0; }
