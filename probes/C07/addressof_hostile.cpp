#include "../common.hpp"
#include <etl/expected.hpp>
#include <etl/optional.hpp>
#include <etl/variant.hpp>
// An alternative / value type that overloads unary operator& (COM-style smart pointers do): optional, variant and
// expected must still hand out pointers to the contained object itself (get_if, operator->).
struct Handle {
    int id = 0;
    Handle() = default;
    Handle(int x) : id(x) { }
    auto operator&() -> int* { return &id; }
    auto operator&() const -> int const* { return &id; }
};
auto main() -> int
{
    etl::variant<int, Handle> v(Handle(3));
    Handle* byIndex       = etl::get_if<1>(&v);
    Handle* byType        = etl::get_if<Handle>(&v);
    auto const& cv        = v;
    Handle const* cByIndex = etl::get_if<1>(&cv);
    etl::optional<Handle> o(Handle(4));
    Handle* po = o.operator->();
    etl::expected<Handle, int> e(etl::in_place, 5);
    Handle* pe = e.operator->();
    return byIndex->id + byType->id + cByIndex->id + po->id + pe->id == 18 ? 0 : 1;
}
