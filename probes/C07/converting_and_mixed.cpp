#include <etl/optional.hpp>
#include <etl/variant.hpp>
auto main() -> int
{
    etl::optional<long> a(etl::optional<int>(3));
    etl::optional<int> s(4);
    a = s;
    a = etl::optional<int>();
    bool r = etl::optional<int>(1) < etl::optional<long>(2) && etl::optional<int>(1) != etl::nullopt && 1 <= etl::optional<int>(1);
    int x = 5;
    etl::optional<int&> ref(x);
    etl::optional<int const&> cref(static_cast<etl::optional<int&> const&>(ref));
    etl::variant<int, char, etl::monostate> v('a');
    v = 3;
    bool h = etl::holds_alternative<int>(v) && etl::get_if<0>(&v) != nullptr && v == v && !(v < v);
    return (r && h && !a.has_value() && cref.has_value()) ? 0 : 1;
}
