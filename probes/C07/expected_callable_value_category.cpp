// expected::and_then / or_else forward the user's callable like std::expected: an rvalue functor is invoked as an rvalue,
// an lvalue functor as an lvalue. Decided at compile time.
#include "../common.hpp"
#include <etl/expected.hpp>
using E = etl::expected<int, int>;
struct Next {
    constexpr auto operator()(int) & -> E { return E{etl::in_place, 1}; }
    constexpr auto operator()(int) const& -> E { return E{etl::in_place, 2}; }
    constexpr auto operator()(int) && -> E { return E{etl::in_place, 3}; }
    constexpr auto operator()(int) const&& -> E { return E{etl::in_place, 4}; }
};
static_assert([] { E e{etl::in_place, 5}; return *e.and_then(Next{}); }() == 3);
static_assert([] { E e{etl::in_place, 5}; Next f; return *e.and_then(f); }() == 1);
static_assert([] { E e{etl::in_place, 5}; Next const f{}; return *e.and_then(f); }() == 2);
static_assert([] { E const e{etl::in_place, 5}; return *e.and_then(Next{}); }() == 3);
static_assert([] { E const e{etl::in_place, 5}; Next f; return *e.and_then(f); }() == 1);
static_assert(*E{etl::in_place, 5}.and_then(Next{}) == 3);
static_assert([] { Next f; return *E{etl::in_place, 5}.and_then(f); }() == 1);
static_assert([] { E e{etl::unexpect, 7}; return *e.or_else(Next{}); }() == 3);
static_assert([] { E e{etl::unexpect, 7}; Next f; return *e.or_else(f); }() == 1);
static_assert([] { E const e{etl::unexpect, 7}; return *e.or_else(Next{}); }() == 3);
static_assert(*E{etl::unexpect, 7}.or_else(Next{}) == 3);
auto main() -> int { return 0; }
