#include "../common.hpp"
#include <etl/expected.hpp>
#include <etl/optional.hpp>
#include <etl/variant.hpp>
// moving optional / variant / expected objects that hold a move-only value, and visiting an rvalue variant
auto main() -> int
{
    etl::optional<MoveOnly> a(etl::in_place, 7);
    etl::optional<MoveOnly> b(static_cast<etl::optional<MoveOnly>&&>(a));
    etl::optional<MoveOnly> c;
    c = static_cast<etl::optional<MoveOnly>&&>(b);
    MoveOnly out = static_cast<etl::optional<MoveOnly>&&>(c).value_or(MoveOnly(0));
    etl::variant<int, MoveOnly> v(etl::in_place_index<1>, 5);
    etl::variant<int, MoveOnly> w(static_cast<etl::variant<int, MoveOnly>&&>(v));
    int seen = etl::visit([](auto&& x) -> int {
        if constexpr (etl::is_same_v<etl::remove_cvref_t<decltype(x)>, int>) {
            return x;
        } else {
            MoveOnly taken(static_cast<decltype(x)&&>(x));
            return taken.v;
        }
    }, static_cast<etl::variant<int, MoveOnly>&&>(w));
    etl::expected<MoveOnly, int> e(etl::in_place, 3);
    etl::expected<MoveOnly, int> e2(static_cast<etl::expected<MoveOnly, int>&&>(e));
    return (out.v == 7 && seen == 5 && e2->v == 3) ? 0 : 1;
}
