#include "../common.hpp"
#include <etl/array.hpp>
#include <etl/span.hpp>
// MUST NOT COMPILE: a span<Base> over an array of Derived would step through the Derived objects with sizeof(Base)
// (pointer arithmetic on an array of another element type). The converting constructors are constrained on
// From(*)[] -> To(*)[], which rejects derived-to-base.
struct Base {
    int id = 0;
};
struct Derived : Base {
    int secret[3] = {1, 2, 3};
};
auto main() -> int
{
    etl::array<Derived, 4> buffer{};
    etl::span<Base const> s(buffer); // ill-formed
    return static_cast<int>(s.size());
}
