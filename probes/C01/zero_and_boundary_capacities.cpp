#include <etl/inplace_vector.hpp>
#include <etl/vector.hpp>
auto main() -> int
{
    etl::static_vector<int, 0> z;
    etl::static_vector<int, 255> a;
    etl::static_vector<int, 256> b;
    etl::inplace_vector<int, 0> iz;
    etl::inplace_vector<int, 256> ib;
    a.push_back(1);
    b.insert(b.begin(), 3, 7);
    ib.try_push_back(1);
    return (z.empty() && z.full() && a.size() == 1 && b.size() == 3 && iz.try_push_back(1) == nullptr && ib.size() == 1) ? 0 : 1;
}
