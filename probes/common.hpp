// Shared element types for the API probes: small valid programs that must compile against the current tree.
// A probe that stops compiling means a history the simulator relies on can no longer even be written down.
#pragma once
struct MoveOnly {
    int v = 0;
    MoveOnly() = default;
    MoveOnly(int x) : v(x) { }
    MoveOnly(MoveOnly const&) = delete;
    MoveOnly(MoveOnly&& o) noexcept : v(o.v) { o.v = -1; }
    auto operator=(MoveOnly const&) -> MoveOnly& = delete;
    auto operator=(MoveOnly&& o) noexcept -> MoveOnly& { v = o.v; o.v = -1; return *this; }
    ~MoveOnly() { v = -2; }
    friend auto operator==(MoveOnly const& a, MoveOnly const& b) -> bool { return a.v == b.v; }
    friend auto operator<(MoveOnly const& a, MoveOnly const& b) -> bool { return a.v < b.v; }
};
struct CopyOnly {
    int v = 0;
    CopyOnly() = default;
    CopyOnly(int x) : v(x) { }
    CopyOnly(CopyOnly const& o) : v(o.v) { }
    auto operator=(CopyOnly const& o) -> CopyOnly& { v = o.v; return *this; }
    ~CopyOnly() { v = -2; }
    friend auto operator==(CopyOnly const& a, CopyOnly const& b) -> bool { return a.v == b.v; }
    friend auto operator<(CopyOnly const& a, CopyOnly const& b) -> bool { return a.v < b.v; }
};
