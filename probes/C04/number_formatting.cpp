#include <etl/charconv.hpp>
#include <etl/string.hpp>
#include <etl/strings.hpp>
auto main() -> int
{
    char buf[16] = {};
    auto a = etl::strings::from_integer(-42, buf, sizeof(buf), 10);
    auto b = etl::to_chars(buf, buf + sizeof(buf), 42);
    auto s = etl::to_string<16>(42);
    auto p = etl::strings::to_integer<int>(etl::string_view("42"), 10);
    auto f = etl::strings::to_floating_point<double>(etl::string_view("4.5"));
    return (a.error == etl::strings::from_integer_error::none && b.ec == etl::errc{} && s.size() == 2 && p.value == 42 && f.value > 4.0) ? 0 : 1;
}
