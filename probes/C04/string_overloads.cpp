#include <etl/string.hpp>
#include <etl/string_view.hpp>
// one call of every basic_inplace_string overload family the simulator drives
template <typename C>
auto use(C const* lit) -> int
{
    using S  = etl::basic_inplace_string<C, 31>;
    using SV = etl::basic_string_view<C>;
    S s(lit);
    S t(lit, 2);
    SV v(lit);
    s = lit;
    s = v;
    s = C('a');
    s.assign(lit).assign(lit, 1).assign(2, C('b')).assign(t).assign(t, 0, 1).assign(v).assign(v, 0, 1).assign(lit, lit + 1);
    s.append(1, C('c')).append(lit).append(lit, 1).append(t).append(t, 0, 1).append(v).append(v, 0, 1).append(lit, lit + 1);
    s += t;
    s += C('d');
    s += lit;
    s += v;
    s.insert(0, 1, C('e')).insert(0, lit).insert(0, lit, 1).insert(0, t).insert(0, t, 0, 1).insert(0, v).insert(0, v, 0, 1);
    s.erase(0, 1);
    s.erase(s.begin());
    s.erase(s.begin(), s.begin() + 1);
    s.replace(0, 1, t).replace(s.begin(), s.begin() + 1, t).replace(0, 1, t, 0, 1).replace(0, 1, lit, 1).replace(s.begin(), s.begin() + 1, lit, 1);
    s.replace(0, 1, lit).replace(s.begin(), s.begin() + 1, lit).replace(s.begin(), s.begin() + 1, 1, C('f'));
    s.resize(3);
    s.resize(4, C('g'));
    s.push_back(C('h'));
    s.pop_back();
    s.swap(t);
    auto n = s.find(t) + s.find(lit, 0, 1) + s.find(lit) + s.find(C('a')) + s.rfind(t, 0) + s.rfind(lit, 0, 1) + s.rfind(lit, 0) + s.rfind(C('a'), 0);
    n += s.find_first_of(t) + s.find_first_of(lit, 0, 1) + s.find_first_of(lit) + s.find_first_of(C('a')) + s.find_first_of(v);
    n += s.find_last_of(t, 0) + s.find_last_of(lit, 0, 1) + s.find_last_of(lit, 0) + s.find_last_of(C('a'), 0);
    n += s.find_first_not_of(t) + s.find_first_not_of(lit, 0, 1) + s.find_first_not_of(lit) + s.find_first_not_of(C('a'));
    n += s.find_last_not_of(t, 0) + s.find_last_not_of(lit, 0, 1) + s.find_last_not_of(lit, 0) + s.find_last_not_of(C('a'), 0);
    int c = s.compare(t) + s.compare(0, 1, t) + s.compare(0, 1, t, 0, 1) + s.compare(lit) + s.compare(0, 1, lit) + s.compare(0, 1, lit, 1) + s.compare(v) + s.compare(0, 1, v) + s.compare(0, 1, v, 0, 1);
    bool b = s.starts_with(v) || s.starts_with(C('a')) || s.starts_with(lit) || s.ends_with(v) || s.ends_with(C('a')) || s.ends_with(lit) || s.contains(v) || s.contains(C('a')) || s.contains(lit);
    C buf[8] = {};
    n += s.copy(buf, 2) + s.copy(buf, 2, 0) + s.substr().size() + s.substr(0).size() + s.substr(0, 1).size();
    S p = s + t;
    p   = s + lit;
    p   = s + C('x');
    p   = lit + s;
    p   = C('x') + s;
    etl::basic_inplace_string<C, 9> other(lit, 1);
    b = b || s == t || s != t || s < t || s <= t || s > t || s >= t || s == lit || lit == s || s < lit || lit < s || s == other || s < other;
    n += etl::erase(p, C('x')) + etl::erase_if(p, [](C ch) { return ch == C('y'); });
    return static_cast<int>(n % 7) + c + (b ? 1 : 0);
}
auto main() -> int { return (use("ab") + use(L"ab") + use(u8"ab") + use(u"ab") + use(U"ab")) > -1000 ? 0 : 1; }
