#include "../common.hpp"
#include <etl/inplace_vector.hpp>
#include <etl/vector.hpp>
// An element type that overloads unary operator&: the vectors must still hand out pointers to their own elements and
// destroy those (addressof, not &).
struct Handle {
    int id = 0;
    Handle() = default;
    Handle(int x) : id(x) { }
    Handle(Handle const& o) : id(o.id) { }
    ~Handle() { id = -1; }
    auto operator&() -> int* { return &id; }
    auto operator&() const -> int const* { return &id; }
};
auto main() -> int
{
    etl::inplace_vector<Handle, 2> v;
    Handle* a = v.try_emplace_back(1);
    Handle const h(2);
    Handle* b = v.try_push_back(h);
    Handle* c = v.try_push_back(Handle(3));
    v.pop_back();
    etl::static_vector<Handle, 2> s;
    s.emplace_back(4);
    s.push_back(h);
    s.pop_back();
    return (a != nullptr) + (b != nullptr) + (c == nullptr) == 3 ? 0 : 1;
}
