#include "../common.hpp"
#include <etl/inplace_vector.hpp>
#include <etl/stack.hpp>
#include <etl/vector.hpp>
auto main() -> int
{
    etl::static_vector<MoveOnly, 4> a;
    a.push_back(MoveOnly(1));
    a.emplace_back(2);
    a.insert(a.begin(), MoveOnly(3));
    a.emplace(a.begin() + 1, 4);
    a.erase(a.begin());
    a.erase(a.begin(), a.begin() + 1);
    a.resize(1);
    a.pop_back();
    a.clear();
    etl::static_vector<MoveOnly, 4> a2(static_cast<etl::static_vector<MoveOnly, 4>&&>(a));
    etl::static_vector<CopyOnly, 4> b(2, CopyOnly(1));
    b.insert(b.begin(), 1, CopyOnly(2));
    CopyOnly const src[2] = {CopyOnly(1), CopyOnly(2)};
    b.assign(src, src + 2);
    etl::static_vector<CopyOnly, 4> b2 = b;
    b2 = b;
    b2.swap(b);
    bool r = b == b2 && !(b < b2) && b <= b2;
    etl::inplace_vector<MoveOnly, 4> c;
    c.try_push_back(MoveOnly(1));
    c.try_emplace_back(2);
    c.unchecked_emplace_back(3);
    c.pop_back();
    etl::inplace_vector<MoveOnly, 4> c2(static_cast<etl::inplace_vector<MoveOnly, 4>&&>(c));
    etl::inplace_vector<CopyOnly, 4> d;
    d.try_push_back(CopyOnly(1));
    etl::inplace_vector<CopyOnly, 4> d2(d);
    etl::stack<int, etl::static_vector<int, 4>> s;
    s.push(1);
    s.emplace(2);
    s.pop();
    etl::stack<int, etl::static_vector<int, 4>> s2(s);
    s2.swap(s);
    return (r && s == s2 && a2.empty() && c2.size() == 2 && d2.size() == 1) ? 0 : 1;
}
