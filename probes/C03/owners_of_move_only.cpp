#include "../common.hpp"
#include <etl/expected.hpp>
#include <etl/flat_set.hpp>
#include <etl/functional.hpp>
#include <etl/optional.hpp>
#include <etl/set.hpp>
#include <etl/tuple.hpp>
#include <etl/utility.hpp>
#include <etl/variant.hpp>
#include <etl/vector.hpp>
auto main() -> int
{
    etl::optional<MoveOnly> o(etl::in_place, 1);
    etl::optional<MoveOnly> o2(static_cast<etl::optional<MoveOnly>&&>(o));
    o = static_cast<etl::optional<MoveOnly>&&>(o2);
    o.emplace(2);
    o.reset();
    etl::variant<int, MoveOnly> v(etl::in_place_index<1>, 3);
    etl::variant<int, MoveOnly> v2(static_cast<etl::variant<int, MoveOnly>&&>(v));
    v = static_cast<etl::variant<int, MoveOnly>&&>(v2);
    v.emplace<0>(1);
    etl::static_set<CopyOnly, 3> s;
    s.insert(CopyOnly(1));
    s.emplace(2);
    s.erase(CopyOnly(1));
    etl::flat_set<CopyOnly, etl::static_vector<CopyOnly, 3>> f;
    f.insert(CopyOnly(1));
    f.emplace(2);
    auto c = static_cast<decltype(f)&&>(f).extract();
    f.replace(static_cast<decltype(c)&&>(c));
    etl::pair<MoveOnly, CopyOnly> p(MoveOnly(1), CopyOnly(2));
    etl::pair<MoveOnly, CopyOnly> p2(static_cast<etl::pair<MoveOnly, CopyOnly>&&>(p));
    etl::tuple<MoveOnly, int> t(MoveOnly(1), 2);
    etl::tuple<MoveOnly, int> t2(static_cast<etl::tuple<MoveOnly, int>&&>(t));
    return (!o.has_value() && v.index() == 0 && s.size() == 1 && f.size() == 2 && p2.second.v == 2 && etl::get<1>(t2) == 2) ? 0 : 1;
}
