// The value category of the wrapper decides the value category with which the user's callable is invoked
// (std::not_fn: an rvalue wrapper calls the && overload, a const lvalue the const& one ...).
// Decided at compile time: each static_assert is one (wrapper category -> overload chosen) pair, as std does it.
#include "../common.hpp"
#include <etl/functional.hpp>
struct Cat {
    constexpr auto operator()() & -> bool { return false; }
    constexpr auto operator()() const& -> bool { return false; }
    constexpr auto operator()() && -> bool { return true; }
    constexpr auto operator()() const&& -> bool { return true; }
};
struct Which {
    constexpr auto operator()(int) & -> int { return 1; }
    constexpr auto operator()(int) const& -> int { return 2; }
    constexpr auto operator()(int) && -> int { return 3; }
    constexpr auto operator()(int) const&& -> int { return 4; }
};
// not_fn: result is the negation of what the chosen overload returned
static_assert(etl::not_fn(Cat{})() == false);
static_assert([] { auto n = etl::not_fn(Cat{}); return n(); }() == true);
static_assert([] { auto const n = etl::not_fn(Cat{}); return n(); }() == true);
static_assert([] { auto n = etl::not_fn(Cat{}); return static_cast<decltype(n)&&>(n)(); }() == false);
static_assert([] { auto const n = etl::not_fn(Cat{}); return static_cast<decltype(n) const&&>(n)(); }() == false);
// invoke itself
static_assert(etl::invoke(Which{}, 0) == 3);
static_assert([] { Which w; return etl::invoke(w, 0); }() == 1);
static_assert([] { Which const w{}; return etl::invoke(w, 0); }() == 2);
auto main() -> int { return 0; }
