#include "../common.hpp"
#include <etl/functional.hpp>
#include <etl/tuple.hpp>
#include <etl/utility.hpp>
struct Obj {
    int d = 1;
    auto f(int x) -> int { return x + d; }
    auto c(int x) const noexcept -> int { return x - d; }
    auto take(CopyOnly v) -> int { return v.v; }
};
inline auto add3(int a, int b, int c) -> int { return a + b + c; }
auto main() -> int
{
    etl::inplace_function<int(int, MoveOnly&&), 32> f = [](int x, MoveOnly&& m) { MoveOnly t(static_cast<MoveOnly&&>(m)); return x + t.v; };
    etl::inplace_function<int(int, MoveOnly&&), 64> g(f);
    etl::inplace_function<int(int, MoveOnly&&), 64> h(static_cast<decltype(f)&&>(f));
    g = h;
    g = nullptr;
    g.swap(h);
    bool e = static_cast<bool>(g) && h == nullptr && nullptr != g;
    Obj o;
    Obj const& co = o;
    auto lam = [&co](int x) noexcept { return co.c(x); };
    etl::function_ref<int(int) noexcept> fr(lam);
    etl::function_ref<int(int)> fr2(lam);
    int bound = 2;
    auto bf   = etl::bind_front(add3, bound, 3);
    auto bm   = etl::bind_front(&Obj::f, etl::ref(o));
    auto nf   = etl::not_fn([](int x) { return x > 1; });
    int n = fr(1) + fr2(1) + bf(1) + static_cast<decltype(bf) const&>(bf)(1) + static_cast<decltype(bf)&&>(bf)(1) + bm(1) + (nf(1) ? 1 : 0);
    n += etl::invoke(&Obj::f, o, 1) + etl::invoke(&Obj::f, &o, 1) + etl::invoke(&Obj::f, etl::ref(o), 1) + etl::invoke(&Obj::d, o) + etl::invoke(&Obj::d, &o) + etl::invoke(&Obj::take, etl::ref(o), CopyOnly(1));
    etl::pair<int, CopyOnly> p(1, CopyOnly(2));
    etl::pair<long, CopyOnly> q(p);
    q = p;
    CopyOnly referent(3);
    etl::pair<int, CopyOnly&> pr(1, referent);
    etl::pair<long, CopyOnly> fromRef(static_cast<etl::pair<int, CopyOnly&>&&>(pr));
    etl::tuple<int, CopyOnly, long> t(1, CopyOnly(2), 3L);
    auto cat = etl::tuple_cat(etl::tuple<int, int>(1, 2), etl::tuple<long>(3L));
    n += etl::apply([](int a, CopyOnly const& b, long c) { return a + b.v + static_cast<int>(c); }, t) + etl::get<0>(cat) + static_cast<int>(etl::get<2>(cat));
    auto const& [pa, pb] = p;
    return (e && n > 0 && pa == 1 && pb.v == 2 && fromRef.second.v == 3 && (p == p) && !(p < p)) ? 0 : 1;
}
