#include "../common.hpp"
#include <etl/tuple.hpp>
#include <etl/utility.hpp>
// apply returns exactly what the callable returns: a reference stays a reference (it can be bound to a non-const lvalue
// reference and written through), a member-data pointer applied to an object yields an lvalue
struct Holder {
    int value = 1;
};
auto main() -> int
{
    etl::tuple<int, int> t(3, 8);
    int& larger = etl::apply([](int& a, int& b) -> int& { return a < b ? b : a; }, t);
    larger      = 100;
    static_assert(etl::is_same_v<decltype(etl::apply([](int& a, int&) -> int& { return a; }, t)), int&>);
    etl::tuple<int const, int> const ct(1, 2);
    int const& first = etl::apply([](int const& a, int const&) -> int const& { return a; }, ct);
    return larger + first == 101 ? 0 : 1;
}
